#!/bin/sh
# usage: try_seed_iso.sh <patch.diff> <ID> — like try_seed.sh but on a private clone of /repo and a private copy
# of /verif (evidence of /verif and the working tree of /repo are not touched)
P="$1"; ID="$2"
W=$(mktemp -d /tmp/iso-XXXXXX)
git clone -q /repo "$W/repo"
rsync -a --exclude .git --exclude evidence /verif/ "$W/verif/"; mkdir -p "$W/verif/evidence"
if ! git -C "$W/repo" apply "$P" 2>/dev/null && ! git -C "$W/repo" apply -3 "$P" 2>/dev/null; then echo "patch does not apply"; rm -rf "$W"; exit 3; fi
cd "$W/verif"
VERIF_REPO="$W/repo" VERIF_DIR="$W/verif" ./verif check "$ID" > "$W/out" 2>&1; rc=$?
grep -E "^VIOLATION|^PASS|^INCONCLUSIVE|^property=" "$W/out" | cut -c1-220 | head -5
echo "exit=$rc"
cd /; rm -rf "$W"
