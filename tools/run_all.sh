#!/bin/sh
# usage: run_all.sh [tier] — runs every registered check on /repo's working tree, one after the other; prints one line each
cd /verif
T=${1:-quick}
for id in ${IDS:-C01 C02 C03 C04 C05 C06 C07 C08 C09 C10 C11 C12 C13 C14 C16 C17 C18 C19 C20}; do
  s=$(date +%s)
  ./verif check $id --tier $T > /tmp/runall-$id.log 2>&1; rc=$?
  e=$(date +%s)
  echo "$id exit=$rc secs=$((e-s)) $(grep -E '^VIOLATION|^INCONCLUSIVE' /tmp/runall-$id.log | head -2 | tr '\n' ' ' | cut -c1-200)"
done
