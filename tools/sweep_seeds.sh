#!/bin/sh
# usage: sweep_seeds.sh <seeds-root> <out.tsv>
# For every seed dir <seeds-root>/<ID>-<n>: re-verify it against the current /repo HEAD in a scratch clone and
# run the property's quick check against the clone with the change applied (a private copy of /verif is used
# so that /verif/evidence is not touched).  One TSV line per seed.
ROOT="$1"; OUT="$2"
W=$(mktemp -d /tmp/sweep-XXXXXX)
rsync -a --exclude .git --exclude evidence /verif/ "$W/verif/"
mkdir -p "$W/verif/evidence"
export GOFLAGS=-mod=mod GOPROXY=off
: > "$OUT"
for S in "$ROOT"/C*-[0-9]; do
  N=$(basename "$S"); ID=$(echo "$N" | sed 's/^\(C[0-9]*\).*/\1/')
  [ -f "$S/patch.diff" ] || continue
  cd "$W"; rm -rf "$W/repo"; git clone -q /repo "$W/repo"
  cd "$W/repo"
  cp "$S/demo_test.go" zz_demo_seed_test.go 2>/dev/null
  go test -vet=off -count=1 -run 'ZZ|Demo|Seed|zz' . > "$W/base.log" 2>&1; base=$?
  if ! git apply "$S/patch.diff" 2>/dev/null && ! git apply -3 "$S/patch.diff" 2>/dev/null; then git checkout -q -- . ; echo "$N	$ID	patch-does-not-apply	-	-	-" >> "$OUT"; continue; fi
  go test -vet=off -count=1 -run 'ZZ|Demo|Seed|zz' . > "$W/mut.log" 2>&1; mut=$?
  rm -f zz_demo_seed_test.go
  suite=1
  for try in 1 2 3; do
    go test -vet=off -count=1 ./... > "$W/suite.log" 2>&1; suite=$?
    [ $suite -eq 0 ] && break
    if ! grep -- "--- FAIL" "$W/suite.log" | grep -v "TestRerankerWithFlatIndex\|CompactionThreshold" | grep -q FAIL; then suite=0; break; fi
  done
  cd "$W/verif"
  VERIF_REPO="$W/repo" VERIF_DIR="$W/verif" ./verif check "$ID" > "$W/check.log" 2>&1; rc=$?
  verdict=$(grep -E "^VIOLATION|^PASS|^INCONCLUSIVE" "$W/check.log" | head -1 | cut -c1-120)
  echo "$N	$ID	demo_base=$base	demo_mut=$mut	suite=$suite	check_exit=$rc	$verdict" >> "$OUT"
done
rm -rf "$W"
