#!/bin/sh
# usage: try_seed.sh <patch.diff> <ID> [extra args]   — applies a seeded change to /repo, runs the check, reverts.
P="$1"; ID="$2"; shift 2
git -C /repo apply "$P" || { echo "patch does not apply"; exit 3; }
/verif/verif check "$ID" "$@" > /tmp/try_seed.out 2>&1; rc=$?
git -C /repo checkout -- .
grep -E "^VIOLATION|^PASS|^INCONCLUSIVE|^KNOWN|^property=" /tmp/try_seed.out | cut -c1-300 | head -8
echo "exit=$rc"
