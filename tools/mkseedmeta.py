#!/usr/bin/env python3
"""Writes seeded/<id>/meta.json for every kept seeded change from its notes.md, the verification logs
(tools/verify_seed.sh output lines kept in seeded/VERIFY.log) and the last sweep (seeded/<id>/sweep.txt)."""
import json, os, re, sys
root = '/verif/seeded'
verify = {}
vl = os.path.join(root, 'VERIFY.log')
if os.path.exists(vl):
    for l in open(vl):
        m = re.match(r'(\S+): demo_without_change=(\d+) .* demo_with_change=(\d+) .* suite_with_change=(\d+)', l)
        if m:
            verify[m.group(1)] = dict(demo_without_change='pass' if m.group(2) == '0' else 'FAIL',
                                      demo_with_change='fail' if m.group(3) != '0' else 'PASSES',
                                      suite_with_change='pass' if m.group(4) == '0' else 'FAIL')
status_override = {}
so = os.path.join(root, 'STATUS.tsv')
if os.path.exists(so):
    for l in open(so):
        p = l.rstrip('\n').split('\t')
        if len(p) >= 2:
            status_override[p[0]] = p[1]
for s in sorted(os.listdir(root)):
    d = os.path.join(root, s)
    if not os.path.isfile(os.path.join(d, 'patch.diff')):
        continue
    prop = re.sub(r'^r\d-', '', s)
    prop = re.sub(r'b?-\d+$', '', prop)
    notes = open(os.path.join(d, 'notes.md')).read() if os.path.exists(os.path.join(d, 'notes.md')) else ''
    agent = {}
    if os.path.exists(os.path.join(d, 'agent_meta.json')):
        try:
            agent = json.load(open(os.path.join(d, 'agent_meta.json')))
        except Exception:
            agent = {}
    vt = os.path.join(d, 'verify.txt')
    if s not in verify and os.path.exists(vt):
        m = re.search(r'demo_without_change=(\d+) .* demo_with_change=(\d+) .* suite_with_change=(\d+)', open(vt).read())
        if m:
            verify[s] = dict(demo_without_change='pass' if m.group(1) == '0' else 'FAIL',
                             demo_with_change='fail' if m.group(2) != '0' else 'PASSES',
                             suite_with_change='pass' if m.group(3) == '0' else 'FAIL')
    needs = ''
    for l in notes.split('\n'):
        if re.search(r'(?i)\b(need|needs|needed|trigger|requires|only shows|manifest)', l):
            needs = re.sub(r'^[\s\-\*#]+', '', l).strip()
            break
    title = ''
    for l in notes.split('\n'):
        if l.strip():
            title = re.sub(r'^[\s\-\*#]+', '', l).strip()
            break
    files = sorted(set(re.findall(r'^\+\+\+ b/(\S+)', open(os.path.join(d, 'patch.diff')).read(), re.M)))
    sweep = []
    first_sweep = []
    sp = os.path.join(d, 'sweep.txt')
    if os.path.exists(sp):
        for l in open(sp):
            m = re.match(r'(first-)?check=(\S+) exit=(\S*) ?(.*)', l.strip())
            if m:
                (first_sweep if m.group(1) else sweep).append(dict(check=m.group(2), exit=m.group(3), first_line=m.group(4)))
    detected_by = [x['check'] for x in sweep if x['exit'] == '1']
    st = 'detected' if detected_by else ('not-detected' if sweep else 'not-swept')
    if s in status_override:
        st = status_override[s]
    meta = dict(
        id=s, breaks_property=prop, round=int(s[1]) if re.match(r'r\d-', s) else 1,
        clause=agent.get('clause', ''),
        origin='written by a fresh sub-agent in its own scratch worktree that was given only the property text (nothing from /verif)',
        change=agent.get('summary') or title, files_changed=files,
        needs_to_manifest=agent.get('needs') or needs or 'see notes.md',
        demonstration='demo_test.go (package comet; fails with patch.diff applied, passes without)',
        confirmed_by_me=verify.get(s, {}),
        confirmed_how='tools/verify_seed.sh <dir>: scratch worktree of /repo HEAD under /tmp; go test of the demo without the change, with the change, then the whole unedited suite with the change (the baseline-flaky TestRerankerWithFlatIndex tolerated); worktree removed',
        checked_how='tools/sweep_all.sh: git apply on a private clone of /repo, ./verif check <ID> --tier quick on a private copy of /verif, clone removed',
        sweep_before_strengthening=first_sweep, sweep=sweep, detected_by=detected_by, status=st,
    )
    json.dump(meta, open(os.path.join(d, 'meta.json'), 'w'), indent=1)
    print(s, st, detected_by)
