#!/bin/sh
# usage: sweep_all.sh [seed-id ...] — runs every kept seeded change (default: all of /verif/seeded) against the
# check of the property it was written to break (and, when that one passes, the checks named in its also.txt),
# each on a private clone of /repo (tools/try_seed_iso.sh); writes seeded/<id>/sweep.txt.  /repo itself and
# /verif/evidence are not touched.
cd /verif
if [ $# -gt 0 ]; then LIST="$*"; else LIST=$(ls seeded); fi
for s in $LIST; do
  d=seeded/$s
  [ -f $d/patch.diff ] || continue
  id=$(echo "$s" | sed 's/^r[0-9]-//; s/b\?-[0-9]*$//')
  : > $d/sweep.txt
  hit=0
  for c in $id $(cat $d/also.txt 2>/dev/null); do
    out=$(tools/try_seed_iso.sh $PWD/$d/patch.diff $c 2>&1)
    rc=$(echo "$out" | sed -n 's/^exit=//p')
    first=$(echo "$out" | grep -E "^VIOLATION|^INCONCLUSIVE|^PASS|does not apply" | head -1 | sed 's|/tmp/iso-[A-Za-z0-9]*/verif/||')
    echo "check=$c exit=$rc $first" >> $d/sweep.txt
    echo "$s check=$c exit=$rc $first"
    [ "$rc" = 1 ] && { hit=1; break; }
  done
done
