#!/bin/sh
# usage: intake.sh <round> <ID> — copies /tmp/<round>/out/<ID>-{1,2,3} to seeded/<round>-<ID>-<n>, confirms each in a scratch
# worktree (verify_seed.sh) and runs the property's check against it on a private clone (sweep_all.sh)
R="$1"; ID="$2"
cd /verif
for n in 1 2 3; do
  src=/tmp/$R/out/$ID-$n
  [ -f $src/patch.diff ] || continue
  d=seeded/$R-$ID-$n
  mkdir -p $d
  cp $src/patch.diff $src/demo_test.go $d/
  cp $src/meta.json $d/agent_meta.json 2>/dev/null
  tools/verify_seed.sh $PWD/$d 2>&1 | tail -1 | tee $d/verify.txt
done
for n in 1 2 3; do
  [ -f seeded/$R-$ID-$n/patch.diff ] && tools/sweep_all.sh $R-$ID-$n
done
