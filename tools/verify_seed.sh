#!/bin/sh
# usage: verify_seed.sh <seed-dir> — confirms in a scratch worktree that (1) the suite passes with the change,
# (2) the demo fails with it, (3) the demo passes without it. Prints one summary line.
S="$1"; N=$(basename "$S"); WT=/tmp/vs-$N
export GOFLAGS=-mod=mod GOPROXY=off
git -C /repo worktree add -q "$WT" HEAD || exit 3
cd "$WT"
cp "$S/demo_test.go" zz_demo_seed_test.go
go test -vet=off -count=1 -run 'ZZ|Demo|Seed|zz' . > /tmp/vs-$N.base 2>&1; base=$?
git apply "$S/patch.diff" || { echo "$N: PATCH-FAILS"; cd /; git -C /repo worktree remove --force "$WT"; exit 3; }
go test -vet=off -count=1 -run 'ZZ|Demo|Seed|zz' . > /tmp/vs-$N.mut 2>&1; mut=$?
rm zz_demo_seed_test.go
suite=1
for try in 1 2 3; do
  go test -vet=off -count=1 ./... > /tmp/vs-$N.suite 2>&1; suite=$?
  [ $suite -eq 0 ] && break
  # tolerate the baseline-flaky TestRerankerWithFlatIndex only
  if ! grep -- "--- FAIL" /tmp/vs-$N.suite | grep -v TestRerankerWithFlatIndex | grep -q FAIL; then suite=0; break; fi
done
cd /; git -C /repo worktree remove --force "$WT"
echo "$N: demo_without_change=$base (want 0) demo_with_change=$mut (want !=0) suite_with_change=$suite (want 0)"
