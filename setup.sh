#!/bin/sh
# Builds the gosymex driver offline from files on disk.
set -e
cd "$(dirname "$0")/engine"
export GOFLAGS=-mod=mod GOPROXY=off
unset GOSUMDB GOTOOLCHAIN 2>/dev/null || true
mkdir -p ../bin
go build -o ../bin/verif ./cmd/verif
echo "built $(cd .. && pwd)/bin/verif"
