package main

func init() {
	register(&PropSpec{
		ID:    "C20",
		Title: "Training and quantisation are deterministic, in-range and error-bounded",
		Harnesses: []*HarnessSpec{
			{Name: "H_C20_f32", Tier: "quick", What: "float32 quantiser: bit-exact round trip, fresh slices, input untouched; length<=3, all float32", Covers: []string{"ran"}},
			{Name: "H_C20_f16", Tier: "quick", What: "float16: real SSA of x448/float16 executed symbolically; for every non-NaN float32 v: Quantize bits == SMT (to_fp 5 11) RNE v, Dequantize == its exact float32 value, relative error <= 2^-11 in the normal range", Covers: []string{"ran", "normal-range"}},
			{Name: "H_C20_int8", Tier: "quick", What: "int8: untrained => error; for absMax in {1e-37, 2^-10, 0.1, 1, 3, 127, 1000, 2^20} (set by Train, by SetAbsMax, or Train then SetAbsMax) and every float32 v with |v|<=absMax: |deq-v| <= absMax/254*(1+2^-12) (T2)", Covers: []string{"ran"}},
			{Name: "H_C20_int8_train", Tier: "quick", What: "Int8Quantizer.Train computes the maximum absolute value (3 symbolic values)", Covers: []string{"ran"}},
			{Name: "H_C20_nearest", Tier: "quick", What: "FindNearestCentroidIndex (the assignment kernel): 1..3 centroids, d<=2, 3 metrics, all float32 with non-NaN distances: index in range, no strictly nearer centroid (which of several equidistant centroids is returned is not constrained)", Covers: []string{"ran"}},
			{Name: "H_C20_kmeans", Tier: "quick", What: "KMeans: n<=2 vectors, d=1, 3 metrics, k any int, maxIter any int (effective iterations <=2): min(k,n) centroids, nil for k<=0 / n=0, assignments in range, nearest when converged, input untouched, second call bit-identical", Covers: []string{"ran", "nil", "converged"}},
			{Name: "H_C20_kmeans_finite", Tier: "quick", What: "KMeans, k=2, 2 iterations, 2 points or 3 with a duplicate (an empty cluster arises), symbolic coordinates in [-1e6,1e6]: every centroid coordinate is finite (T2)", Covers: []string{"ran"}},
			{Name: "H_C20_kmeans_box", Tier: "quick", What: "KMeans, k in {2,3}, 2 iterations, 2..4 points in d=1 built from two symbolic coordinates on the dyadic grid k/4, |k|<=32 (duplicates, all-equal data, k above the number of distinct points: clusters that stay empty): every centroid coordinate lies inside the bounding box of the training vectors, exactly (T2, grid domain)", Covers: []string{"ran"}},
			{Name: "H_C20_train_twice", Tier: "quick", What: "IVF / PQ / IVFPQ (nlist 1 and 2) trained twice on the same 12 / 20 vectors, the second time under the reversed map iteration order; KMeans (k 1..2) twice on 300 / 500 concrete vectors (the random source is modelled as a sequence that differs from call to call): bit-identical centroids and codebooks, identical result lists", Covers: []string{"ran"}},
			{Name: "H_C20_kmeans3", Tier: "thorough", What: "KMeans n=3, k=2, l2sq, <=2 iterations", Covers: []string{"ran"}},
		},
		Bounds:      []string{"k-means: n<=2 (3 thorough) training vectors, d=1, effective iterations <=2 (DefaultMaxIter is set by the harness for maxIter<=0)", "float16: all 2^32 float32 inputs (NaN inputs only for no-panic)", "int8: 7 concrete absMax values x every float32 v in range"},
		Outside:     []string{"k-means on 4..500 vectors (n=4 with k=2 did not finish: every comparison of two cluster means forks at T1) — empty-cluster behaviour that needs >=4 points is not reached", "bounding-box containment of centroids beyond the dyadic-grid domain of H_C20_kmeans_box (a tolerance law over all float32)", "symbolic absMax (cvc5 > 120 s)", "int8 bound without float slack (refuted: met with equality in the reals)"},
		Assumptions: []string{"T1/T2 ladder as in DESIGN.md §3.3; float->int8 conversion encoded with fp.to_sbv RTZ, in range because |v|<=absMax", "math.Round = roundToIntegral RNA"},
		QuickSecs:   900,
		ThoroughSec: 7200,
		LevelNote:   idxNote,
	})
}
