package main

// Rewrite lemmas used by the term simplifier.  Each is a closed IEEE-754
// statement over all float32 / float64 values, discharged bit-precisely by
// cvc5 in every run of a check that relies on it (DESIGN.md §3.3).

import (
	"fmt"
	"os/exec"
	"strings"
	"time"
)

type lemma struct {
	Name   string
	Text   string
	Script string
}

func fpLemma(sort, zero string) string {
	return fmt.Sprintf(`(set-logic ALL)
(define-sort F () %s)
(declare-const a F)(declare-const b F)
(assert (not (= (fp.add RNE (fp.add RNE %s a) b) (fp.add RNE (fp.add RNE %s b) a))))
(check-sat)
`, sort, zero, zero)
}

var lemmas = map[string]lemma{
	"L_add0_comm_f32": {Name: "L_add0_comm_f32", Text: "(0+a)+b = (0+b)+a for all float32 (incl. NaN, Inf, -0)",
		Script: fpLemma("(_ FloatingPoint 8 24)", "(_ +zero 8 24)")},
	"L_sq_abs_f32": {Name: "L_sq_abs_f32", Text: "x*x = |x|*|x| for all float32",
		Script: `(set-logic ALL)
(declare-const x (_ FloatingPoint 8 24))
(assert (not (= (fp.mul RNE x x) (fp.mul RNE (fp.abs x) (fp.abs x)))))
(check-sat)
`},
	"L_abs_sub_f32": {Name: "L_abs_sub_f32", Text: "|b-a| = |a-b| for all float32",
		Script: `(set-logic ALL)
(declare-const a (_ FloatingPoint 8 24))(declare-const b (_ FloatingPoint 8 24))
(assert (not (= (fp.abs (fp.sub RNE b a)) (fp.abs (fp.sub RNE a b)))))
(check-sat)
`},
}

type lemmaResult struct {
	Name    string  `json:"name"`
	Text    string  `json:"statement"`
	Verdict string  `json:"verdict"`
	Seconds float64 `json:"seconds"`
}

func runLemma(name string, timeoutSec int) lemmaResult {
	l := lemmas[name]
	t0 := time.Now()
	cmd := exec.Command("timeout", fmt.Sprint(timeoutSec+5), "cvc5", "--lang=smt2", fmt.Sprintf("--tlimit=%d", timeoutSec*1000))
	cmd.Stdin = strings.NewReader(l.Script)
	out, _ := cmd.Output()
	v := strings.TrimSpace(string(out))
	if i := strings.IndexByte(v, '\n'); i >= 0 {
		v = v[:i]
	}
	if v == "" {
		v = "timeout"
	}
	return lemmaResult{Name: name, Text: l.Text, Verdict: v, Seconds: time.Since(t0).Seconds()}
}
