package main

import (
	"encoding/json"
	"fmt"
	"os"
	"path/filepath"
)

// notApplicable: properties not claimed, with the reason (kept current by hand).
var notApplicable = map[string]string{
	"C15": "statistical recall floors on ~3000 Gaussian points x 16 dims x 100 queries: not a 'for all inputs within a bound' statement and three orders of magnitude beyond any unrolling a solver can discharge; not replaced by a measurement script because that would be another technique (DESIGN.md §6 C15)",
}

var allProps = []string{"C01", "C02", "C03", "C04", "C05", "C06", "C07", "C08", "C09", "C10", "C11", "C12", "C13", "C14", "C15", "C16", "C17", "C18", "C19", "C20"}

func cmdManifest() int {
	type lvl struct {
		Category  string `json:"category"`
		Text      string `json:"text"`
		DesignRef string `json:"design_ref"`
	}
	type check struct {
		PropertyID string `json:"property_id"`
		Quick      string `json:"quick_cmd"`
		Thorough   string `json:"thorough_cmd"`
		Evidence   string `json:"evidence_file"`
		Replay     string `json:"replay_cmd_template"`
		Engine     string `json:"engine"`
		Level      lvl    `json:"level_claimed"`
		Note       string `json:"level_note"`
		Technique  string `json:"technique"`
	}
	var checks []check
	var na []map[string]string
	var served []string
	for _, id := range allProps {
		s := specs[id]
		if s == nil {
			r := notApplicable[id]
			if r == "" {
				r = "check not built yet in this session (planned in DESIGN.md §6); not claimed"
			}
			na = append(na, map[string]string{"property_id": id, "reason": r})
			continue
		}
		served = append(served, id)
		text := s.LevelText
		if text == "" {
			text = "bounded symbolic model checking of the real SSA: every assertion on every feasible path of the harness is discharged by an SMT solver for all values of the symbolic inputs within the stated bounds; counterexamples are replayed natively before being reported"
		}
		checks = append(checks, check{
			PropertyID: id,
			Quick:      "./verif check " + id + " --tier quick",
			Thorough:   "./verif check " + id + " --tier thorough",
			Evidence:   "/verif/evidence/" + id + ".json",
			Replay:     "./verif replay {path}",
			Engine:     "gosymex",
			Level:      lvl{"model_checking", text, "DESIGN.md §6 " + id},
			Note:       s.LevelNote,
			Technique:  "SMT-based bounded symbolic execution of go/ssa (z3 T1 with uninterpreted float arithmetic, cvc5 T2 bit-precise), native replay of models",
		})
	}
	m := map[string]interface{}{
		"version":   1,
		"setup_cmd": "./setup.sh",
		"hooks": map[string]interface{}{
			"guard":            "verif",
			"enable":           "no file in /repo is changed by hooks: harnesses (/verif/harness/*.go, //go:build verif, package comet) are injected with go/packages Overlay (engine) and `go test -tags verif -overlay` (native replay)",
			"baseline_off_cmd": "cd /repo && GOFLAGS=-mod=mod go test -vet=off -count=1 -timeout 25m ./...",
			"source_commits":   []string{},
			"add_only":         true,
		},
		"engines": []map[string]interface{}{{
			"name": "gosymex", "path": "/verif/engine", "serves_properties": served,
			"kind_free_text": "symbolic executor for Go SSA (fork of x/tools go/ssa/interp v0.29.0 with term-valued scalars, stateless DFS over decision vectors, 16 worker processes) emitting SMT-LIB2 for z3 (T1) and cvc5 (T2)",
		}},
		"checks":         checks,
		"not_applicable": na,
		"notes":          "exit 0 = all obligations discharged (known findings printed); exit 1 + VIOLATION line = natively reproduced counterexample; exit 2 + INCONCLUSIVE = timeout / unknown / unwinding / vacuity / unreplayed model (never counted as a pass). See DESIGN.md.",
	}
	b, _ := json.MarshalIndent(m, "", " ")
	if err := os.WriteFile(filepath.Join(verifDir, "MANIFEST.json"), append(b, '\n'), 0644); err != nil {
		fmt.Fprintln(os.Stderr, err)
		return 1
	}
	fmt.Println("MANIFEST.json written:", len(checks), "checks,", len(na), "not applicable")
	return 0
}
