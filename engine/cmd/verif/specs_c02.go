package main

func init() {
	register(&PropSpec{
		ID:    "C02",
		Title: "Every vector index returns only live, eligible, correctly scored, ordered hits",
		Harnesses: []*HarnessSpec{
			{Name: "H_C02_sound_flat", Tier: "quick", What: "flat: 3 metrics, d=1, n=2 symbolic vectors, none|Remove(any/unknown)|Remove+Flush, 2 filter patterns, k any int, threshold any float32>=0: exact top-k oracle", Covers: []string{"exhaustive", "nonempty-result"}},
			{Name: "H_C02_sound_hnsw", Tier: "quick", What: "hnsw (M=2, ef=8, levels 0): same shape, soundness oracle (live, eligible, score = distance, unique, ascending, <=k)", Covers: []string{"approximate", "nonempty-result"}},
			{Name: "H_C02_sound_ivf", Tier: "quick", What: "ivf nlist=2 trained directly (concrete centroids and stored vectors; symbolic query, k, threshold), nprobes in {0,1,5,-3}: exact oracle at full probe, soundness otherwise", Covers: []string{"exhaustive", "approximate", "nonempty-result"}},
			{Name: "H_C02_sound_pq", Tier: "quick", What: "pq M=1 nbits=1 trained directly with a symbolic codebook: exact oracle with the reconstruction-distance score", Covers: []string{"exhaustive", "nonempty-result"}},
			{Name: "H_C02_sound_ivfpq", Tier: "quick", What: "ivfpq nlist=2 M=1 nbits=1 trained directly (concrete centroids/codebook/vectors; symbolic query, k, threshold)", Covers: []string{"exhaustive", "approximate", "nonempty-result"}},
			{Name: "H_C02_flush_many", Tier: "quick", What: "5 kinds, 6 concrete vectors over 3 clusters, EVERY subset removed (64 masks), [Flush,] one more Add near any of the 3 centroids — of a fresh id or of a removed id (update, other removals possibly still pending): result lists before the flush, after it and after the later Add exact against the reference (sound for hnsw), removed node ids are errors", Covers: []string{"ran"}},
			{Name: "H_C02_many", Tier: "quick", What: "ivf / pq / ivfpq (full probe) with 12 concrete vectors (one removed) — more than the default k=10 — k over all of int or left at the default: exact oracle", Covers: []string{"more-than-default-k"}},
			{Name: "H_C02_node", Tier: "quick", What: "5 kinds x {l2sq, cosine}: WithNode(id) == WithQuery(stored vector), unknown / removed id is an error; n=2, none|Remove|Remove+Flush", Covers: []string{"node-ok", "node-error"}},
			{Name: "H_C02_multi", Tier: "quick", What: "5 kinds, l2sq: two queries or query+node id, sum/max/mean, k>=n: per-id score = rule over the raw per-query distances", Covers: []string{"multi"}},
			{Name: "H_C02_multi_k", Tier: "quick", What: "flat / ivf / pq, l2sq, d=1, 3 live vectors, two symbolic queries, k=2 (per-query lists differ in membership: an id found by one query only contributes one score), sum/max/mean: per-id score = the rule over the lists that hold the id, ascending order, the k best aggregated scores kept; per-query distances assumed pairwise distinct", Covers: []string{"ran", "found-by-one-query-only"}},
			{Name: "H_C02_filter_reuse", Tier: "quick", What: "5 kinds, 14 concrete vectors, 2 queries, k any int: a search restricted to 10..13 ids (two unknown), then one restricted to 1..7 ids (incl. ascending lists that repeat an id and straddle live ids that are not listed), then a large restriction or none — each answer exact for its own restriction (sound for hnsw); the pooled restriction object is reused between them", Covers: []string{"ran"}},
			{Name: "H_C02_builder_reuse", Tier: "quick", What: "5 kinds, concrete stored vectors, symbolic query coordinate, k in {2,3}: ONE search object executed with 1 vector resident (fewer than k), again after 3 more Adds, after a Remove, after a Flush — every answer exact for the index as it is then (sound + non-empty for hnsw); a two-query batch with a threshold whose first query has no candidate: nothing (clamped k, ranked clusters, tables) is carried from one call or query into the next", Covers: []string{"ran"}},
			{Name: "H_C02_flush", Tier: "quick", What: "flat/ivf/pq/ivfpq (full probe), 3 metrics, n<=3, 1..2 removals: result list before Flush == after Flush element by element", Covers: []string{"flush"}},
			{Name: "H_C02_sound_t", Tier: "thorough", What: "all kinds, n=3", Covers: []string{"nonempty-result"}},
			{Name: "H_C02_sound_d2", Tier: "thorough", What: "all kinds, d=2 (PQ M=2, dsub=1)", Covers: []string{"nonempty-result"}},
		},
		Bounds:      []string{"n<=2 (quick) / 3 (thorough) resident vectors, dimension 1 (2 in thorough), history: adds then at most Remove [+ Flush]", "HNSW: M=2, ef=8, all level draws 0; IVF/IVFPQ: nlist=2; PQ/IVFPQ: M=dim, nbits=1", "query, k (all int), threshold (all float32 >= 0) symbolic; flat/hnsw vectors symbolic; trained kinds: concrete stored vectors (symbolic ones are C13/C14's)", "1..2 queries and/or node ids"},
		Outside:     []string{"3..4 queries", "efSearch override, larger M / nlist / nbits", "ties at a per-query k-th place in the multi-query clause (k >= n is used)", "node-id queries on reloaded PQ/IVFPQ"},
		Assumptions: idxAssumptions,
		QuickSecs:   1200,
		ThoroughSec: 7200,
		LevelNote:   idxNote,
	})
}
