package main

import (
	"fmt"
	"os"
	"path/filepath"
	"sort"
	"strings"

	"golang.org/x/tools/go/packages"
	"golang.org/x/tools/go/ssa"
	"golang.org/x/tools/go/ssa/ssautil"
)

var (
	repoDir  = envOr("VERIF_REPO", "/repo")
	verifDir = envOr("VERIF_DIR", "/verif")
)

func envOr(k, d string) string {
	if v := os.Getenv(k); v != "" {
		return v
	}
	return d
}

// harnessFiles returns harness source path -> virtual path inside the repo.
func harnessFiles() map[string]string {
	out := map[string]string{}
	es, _ := os.ReadDir(filepath.Join(verifDir, "harness"))
	for _, e := range es {
		if e.IsDir() || !strings.HasSuffix(e.Name(), ".go") {
			continue
		}
		out[filepath.Join(verifDir, "harness", e.Name())] = filepath.Join(repoDir, "zz_verif_"+e.Name())
	}
	return out
}

func modCacheDir(mod string) string {
	gmc := os.Getenv("GOMODCACHE")
	if gmc == "" {
		gp := os.Getenv("GOPATH")
		if gp == "" {
			gp = filepath.Join(os.Getenv("HOME"), "go")
		}
		gmc = filepath.Join(gp, "pkg", "mod")
	}
	return filepath.Join(gmc, mod)
}

// loadRepo loads /repo's working tree with the harness overlay and the
// dependency models and builds SSA for the whole program.
func loadRepo() (*ssa.Package, error) {
	ov := map[string][]byte{}
	R := modCacheDir("github.com/!roaring!bitmap/roaring@v1.9.4")
	for _, dir := range []string{R, R + "/BitSliceIndexing"} {
		es, err := os.ReadDir(dir)
		if err != nil {
			return nil, fmt.Errorf("roaring module not in cache: %v", err)
		}
		first := true
		for _, e := range es {
			if e.IsDir() || !strings.HasSuffix(e.Name(), ".go") || strings.HasSuffix(e.Name(), "_test.go") {
				continue
			}
			p := filepath.Join(dir, e.Name())
			if first {
				name := "roaring.go.txt"
				if dir != R {
					name = "bsi.go.txt"
				}
				b, err := os.ReadFile(filepath.Join(verifDir, "engine", "models", name))
				if err != nil {
					return nil, err
				}
				ov[p] = b
				first = false
			} else {
				ov[p] = []byte("package roaring\n")
			}
		}
	}
	for src, virt := range harnessFiles() {
		b, err := os.ReadFile(src)
		if err != nil {
			return nil, err
		}
		ov[virt] = b
	}
	cfg := &packages.Config{Mode: packages.LoadAllSyntax, Dir: repoDir, BuildFlags: []string{"-tags=verif"}, Overlay: ov,
		Env: append(os.Environ(), "GOFLAGS=-mod=mod", "GOPROXY=off")}
	pkgs, err := packages.Load(cfg, ".")
	if err != nil {
		return nil, err
	}
	var errs []string
	packages.Visit(pkgs, nil, func(p *packages.Package) {
		for _, e := range p.Errors {
			errs = append(errs, e.Error())
		}
	})
	if len(errs) > 0 {
		sort.Strings(errs)
		if len(errs) > 10 {
			errs = errs[:10]
		}
		return nil, fmt.Errorf("harness-build: %s", strings.Join(errs, "\n"))
	}
	prog, spkgs := ssautil.AllPackages(pkgs, ssa.InstantiateGenerics)
	prog.Build()
	if len(spkgs) == 0 || spkgs[0] == nil {
		return nil, fmt.Errorf("no SSA package")
	}
	return spkgs[0], nil
}
