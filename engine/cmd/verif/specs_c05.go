package main

func init() {
	register(&PropSpec{
		ID:    "C05",
		Title: "Hybrid search = metadata pre-filter, per-modality top-k, fusion, ranking",
		Harnesses: []*HarnessSpec{
			{Name: "H_C05_main", Tier: "quick", What: "flat(l2sq,d=1) + BM25 + metadata; 3 documents with different modality subsets (symbolic vectors, symbolic integer metadata); query = any combination of vector / text (matching / matching nothing) / filter (matching some / nothing / symbolic integer bound); 4 fusion kinds with symbolic finite weights and K>0; k any int >= 1. Oracle by composition with the sub-index public APIs: candidate set, per-modality top-k inside it, fusion branch, descending order, truncation", Covers: []string{"fused", "vector-only", "text-only", "metadata-only", "filter-matches-nothing", "query-matches-nothing"}},
			{Name: "H_C05_options", Tier: "quick", What: "options the hybrid search hands through, one family at a time, 3 documents with symbolic vectors and integer metadata, k any int >= 1: WithMetadataGroups alone and next to WithMetadata, WithFusionKind (4 kinds, default configuration), WithThreshold (any non-NaN float32), two text queries under sum / max / mean aggregation, WithCutoff in {-1,0,1,2}; same oracle by composition (the sub-searches get the same options)", Covers: []string{"ran", "fused", "vector-only", "text-only", "filter-matches-nothing"}},
			{Name: "H_C05_passthrough", Tier: "quick", What: "an approximate vector index under the hybrid — IVF (2 clusters) with WithNProbes in {0,1,2,5,-1} and HNSW with WithEfSearch / SetEfSearch — 4 documents, 3 queries, with / without filter and text, k any int >= 1: the vector candidates are what that index returns for the same setting inside the filtered set (oracle by composition)", Covers: []string{"ran"}},
			{Name: "H_C05_config", Tier: "quick", What: "all 8 combinations of configured sub-indexes x query part: unconfigured modality is an error; metadata-only score is 1", Covers: []string{"configured", "unconfigured"}},
		},
		ModelDiff:   true,
		Bounds:      []string{"3 documents, dimension 1, exact (flat) vector index", "k >= 1 over all of int; fusion weights finite float64, K>0"},
		Outside:     []string{"k <= 0 (outside the property's quantifier)", "NaN fused scores"},
		Assumptions: append([]string{"sub-index answers are taken from the sub-indexes' own public searches (their correctness is C01 / C03 / C04); Fusion.Combine's formulas are C19's"}, metaAssumptions...),
		QuickSecs:   900,
		LevelNote:   idxNote,
	})
}
