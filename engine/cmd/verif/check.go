package main

import (
	"crypto/sha256"
	"encoding/json"
	"flag"
	"fmt"
	"math"
	"os"
	"os/exec"
	"path/filepath"
	"sort"
	"strconv"
	"strings"
	"time"

	"gosymex/interp"
)

type HarnessSpec struct {
	Name     string
	Tier     string // "quick": quick and thorough; "thorough": thorough only; "quickonly"
	What     string
	Opts     interp.JobOpts
	MaxPaths int      // 0 = unlimited; reaching it is reported as a reduced bound (inconclusive)
	Covers   []string // vCover labels that must be reached (vacuity guard)
	// EngineReplay: counterexamples of this harness depend on injected faults / crash points /
	// schedules that cannot be forced on the natively compiled code without rewriting comet's os
	// calls; they are replayed by re-executing the real SSA concretely in the engine under the
	// recorded decisions (fault / crash / schedule) instead of natively.
	EngineReplay bool
}

type PropSpec struct {
	ID          string
	Title       string
	Harnesses   []*HarnessSpec
	Bounds      []string
	Outside     []string
	Assumptions []string
	QuickSecs   int
	ThoroughSec int
	LevelText   string
	LevelNote   string
	ModelDiff   bool     // relies on the BSI model: run the native model-vs-library differential in every run
	Lemmas      []string // rewrite lemmas the harness terms rely on; discharged by cvc5 in every run
}

type knownFinding struct {
	Status   string `json:"status"` // known | fixed
	Property string `json:"property"`
	Key      string `json:"key,omitempty"`
	Commit   string `json:"commit,omitempty"`
	What     string `json:"what"`
}

func loadKnown() []knownFinding {
	var out []knownFinding
	b, err := os.ReadFile(filepath.Join(verifDir, "known_findings.json"))
	if err != nil {
		return nil
	}
	json.Unmarshal(b, &out)
	return out
}

func prettyInputs(in map[string]uint64, kinds map[string]string) map[string]string {
	out := map[string]string{}
	for k, u := range in {
		switch kinds[k] {
		case "float32":
			out[k] = strconv.FormatFloat(float64(math.Float32frombits(uint32(u))), 'g', -1, 32)
		case "float64":
			out[k] = strconv.FormatFloat(math.Float64frombits(u), 'g', -1, 64)
		case "int", "int64":
			out[k] = strconv.FormatInt(int64(u), 10)
		case "int32":
			out[k] = strconv.FormatInt(int64(int32(u)), 10)
		case "bool":
			out[k] = strconv.FormatBool(u != 0)
		default:
			out[k] = strconv.FormatUint(u, 10)
		}
	}
	return out
}

func cmdCheck(args []string) int {
	if len(args) < 1 {
		fmt.Fprintln(os.Stderr, "usage: verif check <ID> [--tier quick|thorough]")
		return 2
	}
	id := args[0]
	fs := flag.NewFlagSet("check", flag.ExitOnError)
	tier := fs.String("tier", envOr("VERIF_TIER", "quick"), "quick|thorough")
	only := fs.String("only", "", "run only harnesses whose name contains this")
	fs.Parse(args[1:])
	spec := specs[id]
	if spec == nil {
		fmt.Fprintln(os.Stderr, "unknown property", id)
		return 2
	}
	seed, _ := strconv.Atoi(os.Getenv("VERIF_SEED"))
	t0 := time.Now()
	var hs []*HarnessSpec
	for _, h := range spec.Harnesses {
		if *only != "" && !strings.Contains(h.Name, *only) {
			continue
		}
		switch h.Tier {
		case "thorough":
			if *tier != "thorough" {
				continue
			}
		case "quickonly":
			if *tier != "quick" {
				continue
			}
		}
		hc := *h
		if *tier == "thorough" && hc.Opts.T2Timeout == 0 {
			hc.Opts.T2Timeout = 300
		}
		hs = append(hs, &hc)
	}
	secs := spec.QuickSecs
	if secs == 0 {
		secs = 600
	}
	if *tier == "thorough" {
		secs = spec.ThoroughSec
		if secs == 0 {
			secs = 3600
		}
	}
	deadline := t0.Add(time.Duration(secs) * time.Second)

	known := loadKnown()
	knownKeys := map[string]knownFinding{}
	for _, k := range known {
		if k.Status == "known" && k.Property == id {
			knownKeys[k.Key] = k
		}
	}

	rp := newReplayer()
	defer rp.cleanup()
	buildDone := make(chan error, 1)
	go func() { buildDone <- rp.build() }()

	lemmaDone := make(chan []lemmaResult, 1)
	go func() {
		var out []lemmaResult
		ch := make(chan lemmaResult, len(spec.Lemmas))
		for _, l := range spec.Lemmas {
			go func(l string) { ch <- runLemma(l, 180) }(l)
		}
		for range spec.Lemmas {
			out = append(out, <-ch)
		}
		lemmaDone <- out
	}()

	unknownKeys := map[string]int{}
	res := explore(hs, nWorkers(), deadline, func(c interp.Candidate) bool {
		k := candKey(c)
		if _, ok := lookupKnown(knownKeys, k); ok {
			return false
		}
		unknownKeys[k]++
		n := 0
		for _, v := range unknownKeys {
			n += v
		}
		return n >= 24
	})

	inconclusive := []string{}
	if res.timedOut {
		inconclusive = append(inconclusive, "deadline reached before the exploration finished")
	}
	var allCands []interp.Candidate
	var samples []interp.Sample
	funcs := map[string]bool{}
	var total interp.Stats
	covers := map[string]int{}
	perHarness := []map[string]interface{}{}
	for _, name := range res.order {
		t := res.totals[name]
		mergeStats(&total, t.Stats)
		for f := range t.Funcs {
			funcs[f] = true
		}
		for k, v := range t.Covers {
			covers[name+"/"+k] += v
		}
		if t.Fatal != "" {
			inconclusive = append(inconclusive, name+": "+t.Fatal)
		}
		if t.Stats.Unwind > 0 {
			u := ""
			if len(t.Unwinds) > 0 {
				u = t.Unwinds[0]
			}
			inconclusive = append(inconclusive, fmt.Sprintf("%s: reason=unwind (%d paths) %s", name, t.Stats.Unwind, u))
		}
		if t.Truncated {
			inconclusive = append(inconclusive, fmt.Sprintf("%s: path budget %d exhausted (reduced bound)", name, t.Spec.MaxPaths))
		}
		for _, e := range t.Errors {
			inconclusive = append(inconclusive, name+": solver "+e)
		}
		for _, c := range t.Spec.Covers {
			if t.Covers[c] == 0 && t.Fatal == "" && !res.timedOut {
				inconclusive = append(inconclusive, fmt.Sprintf("%s: vacuous: cover %q never reached", name, c))
			}
		}
		allCands = append(allCands, t.Candidates...)
		samples = append(samples, t.Samples...)
		perHarness = append(perHarness, map[string]interface{}{
			"harness": name, "what": t.Spec.What, "paths": t.Stats.Paths, "assertions": t.Stats.Asserts,
			"closed_T0": t.Stats.AssertT0, "closed_T1": t.Stats.AssertT1, "closed_T2": t.Stats.AssertT2,
			"t1_queries": t.Stats.T1Queries, "t2_queries": t.Stats.T2Queries, "candidates": t.Stats.Candidates,
			"ei_domain": t.Spec.Opts.EI,
		})
	}

	lemmaResults := <-lemmaDone
	for _, lr := range lemmaResults {
		if lr.Verdict != "unsat" {
			inconclusive = append(inconclusive, fmt.Sprintf("rewrite lemma %s not discharged (%s)", lr.Name, lr.Verdict))
		}
	}

	// ---- candidates: known findings, native replay ----
	byKey := map[string][]interp.Candidate{}
	var keys []string
	for _, c := range allCands {
		k := candKey(c)
		if _, ok := byKey[k]; !ok {
			keys = append(keys, k)
		}
		byKey[k] = append(byKey[k], c)
	}
	sort.Strings(keys)
	violations := 0
	knownHit := []string{}
	replayDir := filepath.Join(verifDir, "evidence", "replay")
	os.MkdirAll(replayDir, 0755)
	// remove stale replay files of this property
	if old, _ := filepath.Glob(filepath.Join(replayDir, id+"-*.json")); true {
		for _, f := range old {
			os.Remove(f)
		}
	}
	var berr error
	built := false
	waitBuild := func() error {
		if !built {
			berr = <-buildDone
			built = true
		}
		return berr
	}
	nrep := 0
	for _, k := range keys {
		cands := byKey[k]
		if kf, ok := lookupKnown(knownKeys, k); ok {
			fmt.Printf("KNOWN-FINDING: property=%s %s (key %s, %d paths)\n", id, kf.What, k, len(cands))
			knownHit = append(knownHit, k)
			continue
		}
		if err := waitBuild(); err != nil {
			inconclusive = append(inconclusive, "reason=harness-build "+err.Error())
			break
		}
		reproduced := false
		tried := 0
		for _, c := range cands {
			if tried >= 4 {
				break
			}
			if c.Inputs == nil && c.PCSize > 0 && len(c.Chooses) == 0 {
				continue
			}
			tried++
			nrep++
			rf := replayFile{Harness: c.Harness, Label: c.Label, Key: k, Tier: c.Tier, Inputs: c.Inputs, Kinds: c.Kinds, Chooses: c.Chooses, Pretty: prettyInputs(c.Inputs, c.Kinds)}
			path := filepath.Join(replayDir, fmt.Sprintf("%s-%d.json", id, nrep))
			writeReplay(path, rf)
			var oc string
			if hspec := res.totals[c.Harness]; hspec != nil && hspec.Spec.EngineReplay {
				oc = engineReplay(c.Harness, path)
			} else {
				out, err := rp.run([]string{path})
				if err != nil {
					inconclusive = append(inconclusive, "replay: "+err.Error())
					os.Remove(path)
					continue
				}
				oc = out[0].Outcome
			}
			if strings.HasPrefix(oc, "ASSERT-FAIL") || strings.HasPrefix(oc, "PANIC") {
				fmt.Printf("VIOLATION property=%s replay=%s\n", id, path)
				fmt.Printf("  harness=%s label=%q replayed=%q key=%s tier=%s\n", c.Harness, c.Label, oc, k, c.Tier)
				violations++
				reproduced = true
				break
			}
			os.Remove(path)
		}
		if !reproduced {
			c := cands[0]
			inconclusive = append(inconclusive, fmt.Sprintf("reason=unreplayed key=%s t2=%s (%d candidate paths)", k, c.T2, len(cands)))
		}
	}

	// ---- dependency model validation (native differential against the real library) ----
	modelDiffN, modelDiffBad := 0, 0
	if spec.ModelDiff {
		if err := waitBuild(); err != nil {
			inconclusive = append(inconclusive, "reason=harness-build "+err.Error())
		} else {
			n, bad, lines, err := rp.runModelDiff(seed)
			modelDiffN, modelDiffBad = n, bad
			if err != nil {
				inconclusive = append(inconclusive, "model differential: "+err.Error())
			} else if bad > 0 {
				inconclusive = append(inconclusive, fmt.Sprintf("BSI model disagrees with the real library on %d of %d comparisons: the model is not a faithful stand-in (%s)", bad, n, strings.Join(lines, "; ")))
			}
		}
	}

	// ---- translator validation: replay sampled path models natively ----
	validated := 0
	var sampleFiles []string
	tmpS, _ := os.MkdirTemp("", "verif-samples-")
	defer os.RemoveAll(tmpS)
	for i, s := range samples {
		if s.Tier != "T1-model" {
			continue
		}
		p := filepath.Join(tmpS, fmt.Sprintf("s%d.json", i))
		writeReplay(p, replayFile{Harness: s.Harness, Label: "sample", Inputs: s.Inputs, Kinds: s.Kinds, Chooses: s.Chooses})
		sampleFiles = append(sampleFiles, p)
		if len(sampleFiles) >= 24 {
			break
		}
	}
	if len(sampleFiles) > 0 && violations == 0 {
		if err := waitBuild(); err == nil {
			out, err := rp.run(sampleFiles)
			if err != nil {
				inconclusive = append(inconclusive, "sample replay: "+err.Error())
			}
			for _, o := range out {
				switch {
				case o.Outcome == "OK":
					validated++
				case strings.HasPrefix(o.Outcome, "ASSUME-FAIL"):
					// the T1 model is not a real execution (uninterpreted float arithmetic): neutral
				case strings.HasPrefix(o.Outcome, "ASSERT-FAIL"), strings.HasPrefix(o.Outcome, "PANIC"):
					// a solver-produced input on which the real code breaks the harness oracle
					nrep++
					path := filepath.Join(replayDir, fmt.Sprintf("%s-%d.json", id, nrep))
					b, _ := os.ReadFile(o.File)
					os.WriteFile(path, b, 0644)
					// the native run may take another goroutine schedule than the engine's path: a failure that is a
					// listed known finding (same harness / label / tags, or a "native-sample|harness|label|tag" entry) is reported as such
					var rf replayFile
					json.Unmarshal(b, &rf)
					nlabel, ntags := parseNativeOutcome(o.Outcome)
					sort.Strings(ntags)
					tryKeys := []string{"native-sample|" + o.Outcome, rf.Harness + "|" + nlabel + "|" + strings.Join(ntags, ",")}
					for _, tg := range ntags {
						tryKeys = append(tryKeys, "native-sample|"+rf.Harness+"|"+nlabel+"|"+tg)
					}
					isKnown := false
					for _, key := range tryKeys {
						if kf, ok := lookupKnown(knownKeys, key); ok {
							fmt.Printf("KNOWN-FINDING: property=%s %s (native run of a sampled path; key %s)\n", id, kf.What, key)
							knownHit = append(knownHit, key+" (native run of a sampled path)")
							isKnown = true
							break
						}
					}
					if isKnown {
						os.Remove(path)
						nrep--
						continue
					}
					fmt.Printf("VIOLATION property=%s replay=%s\n", id, path)
					fmt.Printf("  native outcome on a sampled path model: %s\n", o.Outcome)
					violations++
				}
			}
		} else {
			inconclusive = append(inconclusive, "reason=harness-build "+err.Error())
		}
	}

	// ---- evidence ----
	var fnames []string
	for f := range funcs {
		fnames = append(fnames, f)
	}
	sort.Strings(fnames)
	var sampleOut []interface{}
	for i, s := range samples {
		if i >= 6 {
			break
		}
		sampleOut = append(sampleOut, map[string]interface{}{"harness": s.Harness, "obligation": s.Label, "closed_by": s.Tier, "path_condition_size": s.PCSize, "choices": s.Chooses, "model_inputs": prettyInputs(s.Inputs, s.Kinds)})
	}
	if len(sampleOut) == 0 {
		sampleOut = append(sampleOut, map[string]interface{}{"note": "no obligation sampled"})
	}
	distinct := total.Symbolic
	ev := map[string]interface{}{
		"property_id": id,
		"tier":        *tier,
		"seed":        seed,
		"level":       "model_checking",
		"wall_s":      time.Since(t0).Seconds(),
		"violations":  violations,
		"assumptions": spec.Assumptions,
		"coverage": map[string]interface{}{
			"states":                        total.Paths,
			"transitions":                   total.T1Queries + total.T2Queries + total.Paths,
			"transitions_note":              "solver queries discharged + paths completed",
			"traces_validated_against_impl": validated,
			"samples":                       sampleOut,
			"evaluations":                   total.Asserts,
			"distinct_nontrivial":           distinct,
			"rule":                          "one evaluation = one assertion instance met on a symbolic path; non-trivial = its final solver query contained at least one symbolic variable (not closed by constant folding / term identity); paths are distinct decision vectors",
			"exhaustive":                    len(inconclusive) == 0,
			"functions_encoded":             fnames,
			"functions_encoded_count":       len(fnames),
			"ssa_source_hash":               sourceHash(),
			"bounds":                        spec.Bounds,
			"outside_bounds":                spec.Outside,
			"harnesses":                     perHarness,
			"queries": map[string]interface{}{
				"T1_z3_uninterpreted_float": total.T1Queries, "T2_cvc5_bit_precise": total.T2Queries,
				"assertions_closed_T0_term_identity": total.AssertT0, "assertions_closed_T1": total.AssertT1, "assertions_closed_T2": total.AssertT2,
				"T2_unknown": total.T2Unknown,
			},
			"solver_time_s":      map[string]float64{"z3": total.T1Time, "cvc5": total.T2Time},
			"paths_aborted_by_assumption": total.Aborted,
			"covers":             covers,
			"known_findings_hit": knownHit,
			"rewrite_lemmas":     lemmaResults,
			"bsi_model_vs_real_library": map[string]int{"comparisons": modelDiffN, "disagreements": modelDiffBad},
			"inconclusive":       inconclusive,
			"workers":            nWorkers(),
			"explanation":        "bounded symbolic execution of the real SSA of /repo (regenerated on this run); every assertion on every feasible path is discharged by an SMT solver for all values of the symbolic inputs within the stated bounds",
		},
	}
	os.MkdirAll(filepath.Join(verifDir, "evidence"), 0755)
	b, _ := json.MarshalIndent(ev, "", " ")
	os.WriteFile(filepath.Join(verifDir, "evidence", id+".json"), b, 0644)

	fmt.Printf("property=%s tier=%s paths=%d assertions=%d (T0 %d, T1 %d, T2 %d) queries=%d+%d candidates=%d validated_traces=%d wall=%.1fs\n",
		id, *tier, total.Paths, total.Asserts, total.AssertT0, total.AssertT1, total.AssertT2, total.T1Queries, total.T2Queries, len(allCands), validated, time.Since(t0).Seconds())
	if violations > 0 {
		return 1
	}
	if len(inconclusive) > 0 {
		for _, s := range inconclusive {
			fmt.Println("INCONCLUSIVE", s)
		}
		return 2
	}
	fmt.Printf("PASS property=%s\n", id)
	return 0
}

// lookupKnown finds the known finding for a candidate key "harness|label|tags": the exact key, or an entry
// "harness|*|tags" that lists a finding by harness and history tags for every observation (label) it spoils.
func lookupKnown(known map[string]knownFinding, key string) (knownFinding, bool) {
	if kf, ok := known[key]; ok {
		return kf, true
	}
	p := strings.SplitN(key, "|", 3)
	if len(p) == 3 {
		if kf, ok := known[p[0]+"|*|"+p[2]]; ok {
			return kf, true
		}
	}
	return knownFinding{}, false
}

// parseNativeOutcome splits "ASSERT-FAIL <label> tags=a,b" (tags optional).
func parseNativeOutcome(oc string) (label string, tags []string) {
	f := strings.Fields(oc)
	if len(f) >= 2 {
		label = f[1]
	}
	for _, x := range f[2:] {
		if strings.HasPrefix(x, "tags=") {
			for _, t := range strings.Split(strings.TrimPrefix(x, "tags="), ",") {
				if t != "" && !strings.HasPrefix(t, "where=") {
					tags = append(tags, t)
				}
			}
		}
	}
	return
}

// sourceHash hashes the non-test Go sources of the repo working tree: the
// encoding is regenerated from exactly these bytes on every run.
func sourceHash() string {
	h := sha256.New()
	es, _ := os.ReadDir(repoDir)
	for _, e := range es {
		n := e.Name()
		if strings.HasSuffix(n, ".go") && !strings.HasSuffix(n, "_test.go") {
			b, _ := os.ReadFile(filepath.Join(repoDir, n))
			h.Write([]byte(n))
			h.Write(b)
		}
	}
	return fmt.Sprintf("%x", h.Sum(nil))[:16]
}

// engineReplay re-executes the harness concretely inside the engine (real SSA,
// environment models) under the recorded inputs and decisions.
func engineReplay(harness, path string) string {
	self, err := os.Executable()
	if err != nil {
		return "ERROR " + err.Error()
	}
	out, _ := exec.Command(self, "concrete", harness, path).CombinedOutput()
	for _, line := range strings.Split(string(out), "\n") {
		if strings.HasPrefix(line, "ASSERT-FAIL") || strings.HasPrefix(line, "PANIC") {
			return line + " (engine-concrete replay)"
		}
	}
	if strings.Contains(string(out), "FATAL") {
		return "ERROR " + strings.TrimSpace(string(out))
	}
	return "OK (engine-concrete replay)"
}
