package main

import "gosymex/interp"

func init() {
	register(&PropSpec{
		ID:    "C18",
		Title: "Distance functions obey the metric laws the indexes rely on",
		Harnesses: []*HarnessSpec{
			{Name: "H_C18_structural", Tier: "quick", What: "batch = element-wise, Preprocess immutability / in-place agreement, l2 = sqrt(l2sq), cosine = 1 - clamp(dot); 3 metrics, d<=3, all float32, bit-exact", Covers: []string{"ran"}},
			{Name: "H_C18_symmetric", Tier: "quick", What: "Calculate(a,b) bit-equal Calculate(b,a); 3 metrics, d<=3, all float32 (term identity after two T2-discharged rewrite lemmas)", Covers: []string{"ran"}},
			{Name: "H_C18_nonneg", Tier: "quick", What: "!(r<0) for the 3 metrics, cosine <= 2; d<=3, all float32 (T2)", Covers: []string{"ran"}},
			{Name: "H_C18_self_zero", Tier: "quick", What: "l2 / l2sq distance of a finite vector to itself is 0; d<=3 (T2)", Covers: []string{"ran"}},
			{Name: "H_C18_zero_rejected", Tier: "quick", What: "cosine Preprocess / PreprocessInPlace reject every all-(+-0) vector; d<=3", Covers: []string{"ran"}},
			{Name: "H_C18_helpers", Tier: "quick", What: "Norm / Scale / Normalize / NormalizeInPlace definitions; d<=3, all float32", Covers: []string{"zero", "nonzero"}},
			{Name: "H_C18_wide", Tier: "quick", What: "Norm / l2sq / l2 / cosine definitions, batch = element-wise, Preprocess agreement at d in {4,5,7,8,9,15,16,17,24,32,33,64}; GRID domain (all partial sums exact, so order-independent), bit-exact", Covers: []string{"ran"}},
			{Name: "H_C18_wide_onehot", Tier: "quick", What: "one non-zero component at any position: Norm=|x|, l2sq=(x-y)^2, cosine=1-clamp(xy), unit vector +-1 there; d in {8,9,16,33}; GRID domain (T2)", Covers: []string{"ran"}},
			{Name: "H_C18_wide_onehot_t", Tier: "thorough", What: "the same at d in {4,5,7,8,9,15,16,17,24,32,33,64}, every position up to d=17", Covers: []string{"ran"}},
			{Name: "H_C18_grid_unit", Tier: "quick", What: "unit norm (1e-5) after cosine PreprocessInPlace; d<=2; GRID domain k/4, |k|<=32", Covers: []string{"zero", "nonzero"}, Opts: interp.JobOpts{T2Timeout: 400}},
			{Name: "H_C18_grid_cos_self", Tier: "quick", What: "cosine self-distance in [0,1e-5]; d<=2; GRID domain", Covers: []string{"ran"}, Opts: interp.JobOpts{T2Timeout: 400}},
			{Name: "H_C18_grid_triangle", Tier: "thorough", What: "l2 triangle inequality with 1e-5 relative slack; d=1; GRID domain", Covers: []string{"ran"}, Opts: interp.JobOpts{T2Timeout: 600}},
		},
		Lemmas: []string{"L_sq_abs_f32", "L_abs_sub_f32"},
		Bounds: []string{"dimension 1..3 for the all-float32 rows (1..2 for the tolerance rows); dimensions {4,5,7,8,9,15,16,17,24,32,33,64} on the grid domain for the definitional rows", "bit-exact laws: all float32 values incl. NaN, +-Inf, -0", "tolerance laws (unit norm, cosine self-distance, triangle): only on the dyadic grid {k/4 : -32<=k<32}"},
		Outside: []string{"the dimensions up to 512 not listed (the kernels are single loops uniform in d; the solver does not make that induction)", "dimensions > 3 with non-grid components", "tolerance laws over the full float32 range (cvc5 > 120 s)", "invariance under positive scaling (T2 does not finish: 28 of 88 queries unknown at 60 s) — not claimed", "cosine = 1 - cos(angle) beyond the definitional identity with the clamped dot product"},
		Assumptions: []string{
			"float32(math.Sqrt(float64(x))) encoded as float32 fp.sqrt (innocuous double rounding, Figueroa 1995: 53 >= 2*24+2)",
			"T1: float arithmetic uninterpreted; T2: cvc5 bit-precise IEEE-754 RNE",
			"grid rows: inputs restricted to k/4, -32<=k<32 — the restricted domain is part of the bound",
		},
		QuickSecs: 900,
		LevelNote: "trusted base: go/ssa, the interp fork, SMT encodings of Go float ops (validated by native replay of sampled path models), z3 4.8.12 and cvc5 1.0.3; rewrite lemmas re-proved by cvc5 on every run",
	})
}
