package main

var storeAssumptions = []string{
	"os: in-memory directory model (path -> bytes) with an operation log; O_CREATE|O_EXCL is atomic (the documented POSIX contract); fault = the numbered operation returns an error instead of taking effect",
	"compress/gzip: framing model header(2) || payload || trailer(5); a file without a valid trailer yields the payload present and then io.ErrUnexpectedEOF; an empty file fails at NewReader (flate is out of reach; the model over-approximates every truncated real file at write-call granularity)",
	"goroutines: cooperative threads, context switches only at sync operations (Lock/RLock, atomics, channel operations, WaitGroup, select); default schedule = lowest runnable thread id when the current thread blocks; schedule forking / pre-emption only where a harness says so",
	"time.Now / Since = zero; the compaction ticker never fires; os.Getpid = constant",
	"store contents are concrete documents; templates: flat / hnsw / directly trained ivf, with and without text and metadata",
}

func init() {
	register(&PropSpec{
		ID:    "C17",
		Title: "A storage directory is owned by at most one open store at a time",
		Harnesses: []*HarnessSpec{
			{Name: "H_C17_seq", Tier: "quick", What: "every sequence of 2..5 operations over Open / Close / use-or-Close of an old handle on one directory: open of an owned directory fails and leaves the directory listing unchanged; Close removes LOCK and the next Open succeeds; after Close every public operation (incl. Execute of a query built before the Close) fails, a second Close reports an error, changes nothing and does not release a new owner's lock", Covers: []string{"open-refused", "closed", "use-after-close"}},
			{Name: "H_C17_fault", Tier: "quick", EngineReplay: true, What: "one injected fault at each of the first 6 file-system calls of Open (MkdirAll, create LOCK, write pid, ReadDir x2 ...), on an empty directory and on one that held a store: a failed Open returns no handle, leaves no LOCK, and the next Open succeeds", Covers: []string{"open-failed", "open-survived"}},
			{Name: "H_C17_race", Tier: "quick", EngineReplay: true, What: "two goroutines racing to open the same directory, every interleaving at sync-operation and file-system-call granularity with <=2 pre-emptions: exactly one succeeds", Covers: []string{"ran"}},
			{Name: "H_C17_lock3", Tier: "quick", EngineReplay: true, What: "the lock protocol as a unit (storageProvider.acquireLock / releaseLock): the owner releases while two other providers acquire; 3 threads, every thread choice at blocking points, <=4 pre-emptions at file-system calls: at most one acquire succeeds, the owner holds LOCK, a refused acquire leaves none", Covers: []string{"one-acquired"}},
			{Name: "H_C17_close_busy", Tier: "quick", EngineReplay: true, What: "Close while a compaction is due / in flight (two segments, threshold 2) or while an Add with a pending flush request (flush threshold 1 byte) has passed its closed-check; <=1 pre-emption: Close succeeds, no panic, no deadlock, afterwards every operation on the old handle fails cleanly (second Close included) and the next Open succeeds", Covers: []string{"ran"}},
			{Name: "H_C17_close_race", Tier: "quick", EngineReplay: true, What: "Open racing with the Close of the owner, which still has one document to persist (flush worker running): every thread choice at blocking points plus <=1 pre-emption at sync operations and file-system name-space calls; if the new owner gets in, the directory listing (names, sizes) does not change afterwards; otherwise the open fails cleanly; LOCK released at the end", Covers: []string{"new-owner-got-in", "open-refused"}},
		},
		Bounds:      []string{"histories of <=5 operations; one injected fault per history; 2 racing goroutines (1..8 in the property)"},
		Outside:     []string{"another PROCESS owning the directory (the model has one process; the LOCK file protocol is the same)", "operations racing with Close (C11)", "3..8 goroutines"},
		Assumptions: storeAssumptions,
		QuickSecs:   900,
		LevelNote:   idxNote,
	})
	register(&PropSpec{
		ID:    "C09",
		Title: "Data acknowledged by Flush or Close survives a restart",
		Harnesses: []*HarnessSpec{
			{Name: "H_C09_restart", Tier: "quick", What: "2..4 sessions, each: Open with FRESH templates, check every document made durable so far (vector, token and metadata query), [no-op Flush], add 1..2 documents, [Flush], Close; memtable limit one document / unlimited; 4 template sets (flat+text+metadata, hnsw+text, trained ivf+metadata, flat); segment files never overwritten", Covers: []string{"ran"}},
			{Name: "H_C09_restart_orders", Tier: "quick", EngineReplay: true, What: "two single-document segments from two sessions, third session: every order of the per-segment load/search goroutines, then searches served from the cached segments", Covers: []string{}},
			{Name: "H_C09_ids", Tier: "quick", What: "segment ids never reused: directory holding a real segment plus a segment-like file (any of the 4 components, empty or not) with id in {7,8,9,10,63,64,99,100,777,99999,999998,999999,1000000,1000009} (file names grow past six digits): the next flush takes the id above it and overwrites nothing", Covers: []string{"ran"}},
			{Name: "H_C09_short_reads", Tier: "quick", EngineReplay: true, What: "three documents with every modality (4 template sets), [Flush,] Close, reopen with fresh templates while every gzip Read call delivers at most 1 / 3 / 7 bytes (a legal io.Reader; the real one hands out at most one 32 KiB window per call, which only matters for segments far larger than the bound): every document found by vector, token and metadata query", Covers: []string{"ran"}},
			{Name: "H_C09_refused", Tier: "quick", What: "one document added, then 0..2 refused Removes (unknown id) or a refused Add (wrong dimension; one-document memtables rotate first), then Close / Flush+Close / Flush and death of the process (directory image at the instant Flush returned): found after reopening with fresh templates", Covers: []string{"ran"}},
		},
		ModelDiff:   false,
		Bounds:      []string{"<=4 sessions (1..4 in the property), <=4 documents, <=2 per session", "default (deterministic) schedule of the background workers except in H_C09_restart_orders"},
		Outside:     []string{"faults during the final flush of Close (its error is not reported by Close)", "real gzip / real file system (models)"},
		Assumptions: storeAssumptions,
		QuickSecs:   900,
		LevelNote:   idxNote,
	})
	register(&PropSpec{
		ID:    "C10",
		Title: "A crash at any point leaves a directory that reopens to a consistent store",
		Harnesses: []*HarnessSpec{
			{Name: "H_C10_flush", Tier: "quick", EngineReplay: true, What: "0..2 earlier completed flushes, then Add + Flush interrupted at EVERY file-system operation of the flush (create x4, each gzip header / payload / trailer write, each close; 56..85 crash points per configuration; templates flat+text+metadata and flat only): LOCK deleted, reopen with fresh templates succeeds, searches return no error and no never-added id, every durable document is found, the next flush takes an id above every id in the crash image and overwrites nothing", Covers: []string{"crashed"}},
			{Name: "H_C10_flush_race", Tier: "quick", EngineReplay: true, What: "explicit Flush racing with the background flush worker over the same frozen memtable (every thread choice at blocking points, <=1 pre-emption at any sync operation or file-system call incl. every write): the image at the instant Flush returned nil is reopened and the acknowledged document is found", Covers: []string{"ran"}},
			{Name: "H_C10_damaged", Tier: "quick", What: "two completed flushes, ANY component file of the newest segment missing / empty / cut in half (templates flat+text+metadata and flat only), reopen: Open and search succeed, no never-added id, the next flush overwrites nothing and takes an id above every id in the directory", Covers: []string{"ran"}},
			{Name: "H_C10_compact", Tier: "quick", EngineReplay: true, What: "two or three segments, compaction in the same session or after a restart (threshold 2; with three, one segment stays outside) never overwrites a segment file; an input file is deleted only once the merged segment loads completely and holds the input documents; interrupted at every file-system operation incl. the deletes of the old segments: reopen ok, search ok, no never-added id, ids not reused", Covers: []string{"crashed"}},
		},
		Bounds:      []string{"crash granularity = one file-system call (each binary.Write reaches the file as one write of 1..8 bytes, so the prefixes cover every field boundary); a crash inside one write call (torn write) is outside", "<=2 earlier flushes (0..3 in the property), one compaction of two segments", "default schedule of background workers"},
		Outside:     []string{"torn writes inside one write call; real deflate block boundaries (framing model)", "durability across a crash in COMPACTION (compaction does not merge — see the C08 known finding — so only the reopen / id clauses are asserted there)", "native replay: crash points cannot be forced on the compiled code without rewriting its os calls; counterexamples are replayed by concrete re-execution of the real SSA in the engine"},
		Assumptions: storeAssumptions,
		QuickSecs:   900,
		LevelNote:   idxNote,
	})
	register(&PropSpec{
		ID:    "C08",
		Title: "An acknowledged write to the persistent store stays visible to later searches",
		Harnesses: []*HarnessSpec{
			{Name: "H_C08_history", Tier: "quick", EngineReplay: true, What: "every history of 3..4 operations over AddWithID / Flush / forced rotation / search (twice) / EvictAllCaches / TriggerCompaction (served by the background worker before the next operation, or not yet), memtable limit one document / unlimited, compaction threshold 2, templates flat and flat+text+metadata; after the history and at every search: every acknowledged document returned, no never-added id, each id once, id set equal to an in-memory hybrid index holding the same documents (query exactly on one document; also with a distance threshold)", Covers: []string{"searched"}},
			{Name: "H_C08_after_flush", Tier: "quick", What: "2 documents (one optionally removed again or updated), optionally an Add / AddWithID the store refuses (wrong dimension, valid text and metadata), [rotation,] Flush, search, a later Add (explicit or automatic id), three more searches incl. metadata-only queries by filter list and by filter groups and fused queries with every search option set (fusion by kind / by object, aggregation kind, cutoff, efSearch, nprobes): the single segment is cached by the first search, every acknowledged document stays visible", Covers: []string{"ran"}},
			{Name: "H_C08_compact", Tier: "quick", What: "compaction of 2..3 single-document segments of one session (threshold = their number), each searched after its flush or never loaded, caches evicted or not, served by the background worker: every document visible afterwards, same id set as the in-memory index (also under a threshold)", Covers: []string{"compacted"}},
			{Name: "H_C08_merge", Tier: "quick", What: "2..3 documents spread over 1..3 memtables (rotations) and optionally a segment: each id once, k applied after de-duplication, descending scores", Covers: []string{"ran"}},
		},
		Bounds:      []string{"histories of <=4 operations (5..7 are outside quick), <=4 documents", "background work at operation granularity (a pending compaction signal is served between two operations or not yet); finer interleavings are C11's"},
		Outside:     []string{"Remove in the store (it only reaches the writable memtable)", "size-triggered background flushes (FlushThreshold is set out of reach; flushes are explicit)", "schedules finer than operation granularity", "real gzip / real file system"},
		Assumptions: storeAssumptions,
		QuickSecs:   900,
		LevelNote:   idxNote,
	})
	c11 := func(name, what string, covers ...string) *HarnessSpec {
		return &HarnessSpec{Name: name, Tier: "quick", EngineReplay: true, What: what, Covers: covers}
	}
	register(&PropSpec{
		ID:    "C11",
		Title: "Indexes and store are race-free and visibility-linearizable under concurrency (claimed in part)",
		Harnesses: []*HarnessSpec{
			c11("H_C11_ids", "NewVectorNode / NewMetadataNode from two goroutines (2 ids each), <=3 pre-emptions at the atomic operations: all ids distinct and non-zero", "ran"),
			c11("H_C11_ids_hybrid", "two hybrid index instances used from two goroutines through Add (automatic ids), one of them also has an Add rejected in between (wrong dimension / unsupported metadata value), <=3 pre-emptions at the atomic operations and locks: the four ids of the successful Adds are pairwise different, every document is findable", "ran"),
			c11("H_C11_meta", "metadata index: Add||search, Remove||search, Add||Add; <=2 pre-emptions; + lockset analysis", "ran"),
			c11("H_C11_flat", "all 5 vector kinds (+ lockset analysis over the two threads), 2 resident vectors: Add||search, Remove||search, Remove||Remove (exactly one succeeds), Flush||search, Add||Flush, Add||find-similar search (WithNode); <=2 pre-emptions; sync.RWMutex modelled with writer preference (a blocked Lock excludes new readers), deadlocks reported: no error, visibility rule, results well-formed, state after quiescence", "ran"),
			c11("H_C11_search_search", "5 vector kinds: two concurrent searches with id restrictions on one index and on two indexes (pooled document filters and heaps), <=1 pre-emption: both pass the exact top-k oracle", "ran"),
			c11("H_C11_search_search_hnsw", "hnsw: the same with <=2 pre-emptions", "ran"),
			c11("H_C11_text", "BM25: Add||search (heap path), search||search with id restrictions (pooled heaps / filters; single-query and two-query searches), Remove||Flush; <=2 pre-emptions", "ran"),
			c11("H_C11_hybrid", "hybrid: Add||Add (auto ids unique, both visible), AddWithID||Remove, AddWithID||search; <=2 pre-emptions", "ran"),
			c11("H_C11_store_add", "store with one-document memtables: AddWithID||AddWithID (a rotation falls between choosing the writable memtable and writing to it), <=1 pre-emption + every thread choice at blocking points: no error, all three documents visible", "ran"),
			c11("H_C11_store_flush", "store: AddWithID||Flush, <=1 pre-emption", "ran"),
			c11("H_C11_store_close", "store: Close || AddWithID / search / Flush / TriggerCompaction with two segments at threshold 2 (compaction due or in flight), <=1 pre-emption: Close succeeds, no panic, no deadlock, lock released", "ran"),
		},
		Bounds:      []string{"lockset (Eraser with read/write lock modes, pool hand-over resets) on every explored schedule of the in-memory index harnesses: a cell written by one harness thread and accessed by the other with no common lock is a violation", "2 goroutines, context switches only at synchronisation operations (Lock/RLock/Unlock, atomics, sync.Pool Get/Put, channel operations, WaitGroup), pre-emption budget 1..3 as stated, plus every choice of the next thread when the running one blocks or ends", "concrete documents"},
		Outside:     []string{"data races in the sense of the Go memory model / -race (unsynchronised accesses between two sync operations are invisible to this scheduler): NOT decided", "3..16 goroutines, pre-emption inside a critical section beyond the budget", "search || Flush on the store (did not finish: > 40 000 schedules)", "real sync.Pool per-P behaviour (model: LIFO shared pool — adversarial for stale pooled state)", "lockset analysis covers the in-memory indexes only (H_C11_flat / _search_search / _text / _hybrid / _meta): the store hands data over through channels, which Eraser's discipline reports falsely"},
		Assumptions: storeAssumptions,
		QuickSecs:   900,
		LevelNote:   idxNote,
		LevelText:   "bounded symbolic model checking of 2-thread interleavings of the real SSA at synchronisation-operation granularity; schedules are forked choices of the explorer; counterexample schedules are replayed by concrete re-execution in the engine (they cannot be forced natively). Partial claim: the Go memory model is not covered.",
	})
}
