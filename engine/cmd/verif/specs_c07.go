package main

var streamAssumptions = []string{
	"encoding/binary.Read / Write (LittleEndian) are engine intrinsics: bytes <-> terms by extract / concat, Float32bits(Float32frombits(b)) simplified to b; io.ReadFull / io.MultiReader executed from their real SSA",
	"writers and readers are harness types over a byte slice (real Go code executed symbolically); float payload bytes of the flat index are symbolic, structure bytes are concrete",
	"roaring / BSI byte formats are those of the models (self-consistent; native replay uses the real formats)",
}

func init() {
	register(&PropSpec{
		ID:    "C07",
		Title: "Serialising and reloading any index preserves every search answer",
		Harnesses: []*HarnessSpec{
			{Name: "H_C07_vector", Tier: "quick", What: "5 vector kinds x {l2sq, cosine (+l2 for flat)} x states {untrained/empty, trained+empty, 3 vectors, 3 vectors with one removed}: write count = stream length = read count, the reader stops exactly at the end of the index's bytes (a sentinel follows), the reloaded index returns the same list (symbolic query for flat, 3 queries otherwise; k in {1,10}), writing does not change the source's answers, removed ids absent (in-package scan), reloaded index accepts Add / Remove", Covers: []string{"trained-state", "untrained-state"}},
			{Name: "H_C07_text", Tier: "quick", What: "BM25: 0..2 documents, optional pending removal, 3 queries, k symbolic: same answers, representation invariant of the reloaded index, continuation (Add, Remove of a loaded document, Flush on both sides: same answers, no trace of the purged document)", Covers: []string{"ran"}},
			{Name: "H_C07_meta", Tier: "quick", What: "metadata: 0..3 documents (symbolic integers), optional removal, 5 filters incl. a symbolic bound: same id sets, continuation", Covers: []string{"ran"}},
			{Name: "H_C07_hnsw_graph", Tier: "quick", What: "HNSW M=2 with 9 concrete vectors (layer-0 lists longer than M), optional pending removal, l2sq / cosine: the reloaded graph answers 12 query points and every stored node id under efSearch 1 and 2 (narrow beam, k=1..2) exactly like the source", Covers: []string{"ran", "more-than-M-links-on-layer-0"}},
			{Name: "H_C07_hybrid", Tier: "quick", What: "hybrid over flat / hnsw / ivf with and without text / metadata: four writers concatenated into ONE reader followed by a sentinel; same answers per modality; Remove / Add on the reloaded index reach every modality", Covers: []string{"ran"}},
		},
		ModelDiff:   true,
		Bounds:      []string{"<=3 documents, dimension 2, PQ M=2 nbits=1, nlist=2, HNSW M=2", "scores compared bit-exactly (the formats store the float bits)"},
		Outside:     []string{"larger states and histories", "node-id queries on reloaded PQ / IVFPQ (excluded by the property)", "real roaring / BSI byte formats inside the engine (model formats)"},
		Assumptions: append(streamAssumptions, metaAssumptions...),
		QuickSecs:   900,
		LevelNote:   idxNote,
	})
	register(&PropSpec{
		ID:    "C16",
		Title: "Truncated or mismatched serialised data is rejected, never half-loaded",
		Harnesses: []*HarnessSpec{
			{Name: "H_C16_truncate", Tier: "quick", What: "7 kinds x {empty, populated}: EVERY strict prefix (length 0..len-1) of the serialisation is rejected with an error — no panic, no hang (step budget), no success", Covers: []string{"ran"}},
			{Name: "H_C16_truncate_hybrid", Tier: "quick", What: "hybrid (flat [+text] + metadata) concatenated stream: every strict prefix rejected", Covers: []string{"ran"}},
			{Name: "H_C16_mismatch", Tier: "quick", What: "7 kinds x writer state (fresh-untrained / trained-empty / populated): stream into a receiver of each other kind (7x6 pairs), altered version byte, receiver differing in exactly one of dim / metric (all 6 ordered pairs) / M / efConstruction / efSearch / nlist / PQ M / nbits, hybrid sub-index presence: error", Covers: []string{"ran"}},
			{Name: "H_C16_segment", Tier: "quick", What: "store segment clause: one flushed segment (2 documents; templates flat+text+metadata and flat only), one of its 2..4 gzip component files cut to EVERY strict prefix (0 = empty) or deleted; reopened with fresh templates: Open succeeds and the segment contributes nothing to vector / text / metadata searches (native replay sweeps every prefix of the real gzip files)", Covers: []string{"missing", "truncated"}},
			{Name: "H_C16_segment_load", Tier: "quick", What: "the loading unit segmentMetadata.getIndex on the same damaged segments (every prefix of every component file, or the file deleted): each of three consecutive attempts returns an error and no index, and nothing is cached", Covers: []string{"missing", "truncated"}},
		},
		Bounds:      []string{"streams of 30..400 bytes: all prefix lengths, not a sample", "three states per trainable kind (fresh, trained-empty, 3 vectors), two for the others (empty, 2-3 documents)", "segments: one segment of two documents, every prefix of each component file"},
		Outside:     []string{"arbitrary corruption (bit flips, hostile length fields) — not in the property", "segment files inside the engine use the gzip framing model (header 2 bytes, payload, trailer 5 bytes): real deflate block boundaries are only reached by the native sweep of a replay", "prefixes of real roaring / BSI byte formats (model formats inside the engine)"},
		Assumptions: streamAssumptions,
		QuickSecs:   900,
		LevelNote:   idxNote,
	})
}
