package main

import (
	"bufio"
	"encoding/json"
	"fmt"
	"io"
	"os"
	"os/exec"
	"sort"
	"strings"
	"sync"
	"time"

	"gosymex/interp"
)

type workItem struct {
	h      *HarnessSpec
	prefix []int64
}

type harnessTotals struct {
	Spec       *HarnessSpec
	Stats      interp.Stats
	Covers     map[string]int
	Funcs      map[string]bool
	Candidates []interp.Candidate
	Samples    []interp.Sample
	Unwinds    []string
	Errors     []string
	Fatal      string
	Jobs       int
	Truncated  bool
}

type worker struct {
	cmd *exec.Cmd
	in  io.WriteCloser
	out *bufio.Reader
}

func startWorker() (*worker, error) {
	self, err := os.Executable()
	if err != nil {
		return nil, err
	}
	cmd := exec.Command(self, "worker")
	cmd.Stderr = os.Stderr
	in, _ := cmd.StdinPipe()
	out, _ := cmd.StdoutPipe()
	if err := cmd.Start(); err != nil {
		return nil, err
	}
	return &worker{cmd: cmd, in: in, out: bufio.NewReaderSize(out, 1<<20)}, nil
}

func (w *worker) run(job interp.Job) (interp.JobResult, error) {
	var res interp.JobResult
	b, _ := json.Marshal(job)
	if _, err := w.in.Write(append(b, '\n')); err != nil {
		return res, err
	}
	line, err := w.out.ReadBytes('\n')
	if err != nil {
		return res, fmt.Errorf("worker died: %v", err)
	}
	if err := json.Unmarshal(line, &res); err != nil {
		return res, fmt.Errorf("bad worker output: %v: %.200s", err, line)
	}
	return res, nil
}

func (w *worker) stop() {
	w.in.Close()
	done := make(chan struct{})
	go func() { w.cmd.Wait(); close(done) }()
	select {
	case <-done:
	case <-time.After(2 * time.Second):
		w.cmd.Process.Kill()
	}
}

type exploreResult struct {
	totals   map[string]*harnessTotals
	order    []string
	timedOut bool
	wall     time.Duration
}

// explore runs all harnesses of a spec on a pool of worker processes.
func explore(hs []*HarnessSpec, nWorkers int, deadline time.Time, stopOnCandidate func(interp.Candidate) bool) *exploreResult {
	res := &exploreResult{totals: map[string]*harnessTotals{}}
	var mu sync.Mutex
	cond := sync.NewCond(&mu)
	var queue []workItem
	for _, h := range hs {
		res.totals[h.Name] = &harnessTotals{Spec: h, Covers: map[string]int{}, Funcs: map[string]bool{}}
		res.order = append(res.order, h.Name)
		queue = append(queue, workItem{h, nil})
	}
	busy := 0
	stop := false
	t0 := time.Now()
	var wg sync.WaitGroup
	for i := 0; i < nWorkers; i++ {
		wg.Add(1)
		go func(id int) {
			defer wg.Done()
			var w *worker
			defer func() {
				if w != nil {
					w.stop()
				}
			}()
			for {
				mu.Lock()
				for len(queue) == 0 && busy > 0 && !stop {
					cond.Wait()
				}
				if stop || (len(queue) == 0 && busy == 0) {
					mu.Unlock()
					cond.Broadcast()
					return
				}
				if time.Now().After(deadline) {
					stop = true
					res.timedOut = true
					mu.Unlock()
					cond.Broadcast()
					return
				}
				// take the deepest item (DFS-ish keeps the queue short) unless the queue is short
				it := queue[len(queue)-1]
				queue = queue[:len(queue)-1]
				qlen := len(queue)
				busy++
				tot := res.totals[it.h.Name]
				if it.h.MaxPaths > 0 && tot.Stats.Paths >= it.h.MaxPaths {
					tot.Truncated = true
					busy--
					mu.Unlock()
					cond.Broadcast()
					continue
				}
				mu.Unlock()
				if w == nil {
					var err error
					w, err = startWorker()
					if err != nil {
						mu.Lock()
						tot.Fatal = err.Error()
						stop = true
						busy--
						mu.Unlock()
						cond.Broadcast()
						return
					}
				}
				budget, secs := 200, 4.0
				if qlen < 3*nWorkers {
					budget, secs = 6, 1.0
				}
				job := interp.Job{Harness: it.h.Name, Prefix: it.prefix, Budget: budget, Seconds: secs, Opts: it.h.Opts}
				r, err := w.run(job)
				mu.Lock()
				busy--
				tot.Jobs++
				if err != nil {
					tot.Fatal = err.Error()
					stop = true
					mu.Unlock()
					cond.Broadcast()
					return
				}
				mergeStats(&tot.Stats, r.Stats)
				for k, v := range r.Covers {
					tot.Covers[k] += v
				}
				for _, f := range r.Funcs {
					tot.Funcs[f] = true
				}
				tot.Unwinds = append(tot.Unwinds, r.Unwinds...)
				tot.Errors = append(tot.Errors, r.Errors...)
				if len(tot.Samples) < 8 {
					tot.Samples = append(tot.Samples, r.Samples...)
				}
				for _, c := range r.Candidates {
					tot.Candidates = append(tot.Candidates, c)
					if stopOnCandidate != nil && stopOnCandidate(c) {
						stop = true
					}
				}
				if r.Fatal != "" {
					tot.Fatal = r.Fatal
					stop = true
				}
				for _, p := range r.Work {
					queue = append(queue, workItem{it.h, p})
				}
				mu.Unlock()
				cond.Broadcast()
			}
		}(i)
	}
	wg.Wait()
	res.wall = time.Since(t0)
	return res
}

func mergeStats(a *interp.Stats, b interp.Stats) {
	a.Paths += b.Paths
	a.Aborted += b.Aborted
	a.Asserts += b.Asserts
	a.AssertT0 += b.AssertT0
	a.AssertT1 += b.AssertT1
	a.AssertT2 += b.AssertT2
	a.Symbolic += b.Symbolic
	a.T2Unknown += b.T2Unknown
	a.Candidates += b.Candidates
	a.Unwind += b.Unwind
	a.T1Queries += b.T1Queries
	a.T1Time += b.T1Time
	a.T2Time += b.T2Time
	a.T2Queries += b.T2Queries
	a.Steps += b.Steps
	a.Merged += b.Merged
}

func candKey(c interp.Candidate) string {
	var tags []string
	for _, t := range c.Tags {
		if strings.HasPrefix(t, "where=") {
			continue
		}
		tags = append(tags, t)
	}
	sort.Strings(tags)
	lbl := c.Label
	return c.Harness + "|" + lbl + "|" + strings.Join(tags, ",")
}
