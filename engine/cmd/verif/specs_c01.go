package main

const idxNote = "trusted base: go/ssa, the interp fork, SMT encodings of Go int/float ops, plain-Go models of roaring.Bitmap / BSI (differentially validated against the real library), sort.Slice = the standard library's own pdqsort_func (copied source) driven by the real less closure, sync.Pool = LIFO, z3 4.8.12 / cvc5 1.0.3; NaN distances produced by overflow are excluded by assumption"

var idxAssumptions = []string{
	"T1: float arithmetic uninterpreted (sound over-approximation: every real execution is a T1 model); T2 (cvc5, bit-precise) only to refute or concretise T1 models",
	"distances recomputed by the harness are assumed non-NaN (finite vectors; NaN arises only through overflow)",
	"roaring.Bitmap replaced by a plain-Go set model inside the engine; native replay uses the real library",
	"sort.Slice and sort.SliceStable run the standard library's own pdqsort_func / stable_func (go1.24.2 source copied into the engine) with the real less closure, so tie order and instability beyond 12 elements are the real ones; sync.Pool.Get returns the most recently Put object",
	"ids are concrete (the code only tests them for equality / membership / bitmap order); explicit ids are used out of insertion order",
}

func init() {
	register(&PropSpec{
		ID:    "C01",
		Title: "Flat index returns exactly the k nearest live vectors",
		Harnesses: []*HarnessSpec{
			{Name: "H_C01_flat_q", Tier: "quick", What: "3 metrics, d<=2, n<=2 vectors, <=1 op (Remove any id incl. unknown / Flush), every id restriction over the ids + a foreign id, k any int, threshold any float32>=0", Covers: []string{"nonempty-result", "something-left-out", "query-rejected"}},
			{Name: "H_C01_flat_q3", Tier: "quick", What: "3 metrics, d=1, n=3, 5 id-restriction patterns, k, threshold symbolic", Covers: []string{"nonempty-result", "something-left-out"}},
			{Name: "H_C01_flat_qh", Tier: "quick", What: "histories: l2sq, d=1, n<=2 then <=3 ops from Remove/Flush/Add(fresh), k symbolic", Covers: []string{"nonempty-result", "something-left-out"}},
			{Name: "H_C01_flat_masks", Tier: "quick", What: "l2sq / cosine, 7 concrete vectors (ids out of insertion order), EVERY subset removed (128 masks), Flush, one more Add (fresh id or update of a removed id), one more removal, second Flush: exact top-k at each of the five points; k over all of int", Covers: []string{"ran"}},
			{Name: "H_C01_flat_filter_reuse", Tier: "quick", What: "14 concrete vectors, 2 queries, k any int: a search restricted to 10..13 ids (two unknown), then one restricted to 1..7 ids (incl. ascending lists that repeat an id and straddle live ids that are not listed), then a large restriction or none — each answer exact for its own restriction", Covers: []string{"ran"}},
			{Name: "H_C01_flat_many", Tier: "quick", What: "12 concrete vectors (one removed, optional flush) — more than the builder's default k=10 — concrete query, k over all of int or left at the default, symbolic threshold, optional id restriction: exact top-k oracle ('all eligible ones if k<=0' is only observable above the default)", Covers: []string{"more-than-default-k"}},
			{Name: "H_C01_flat_dim", Tier: "quick", What: "wrong-dimension add / query, missing query are errors and change nothing", Covers: []string{"ran"}},
			{Name: "H_C01_flat_t", Tier: "thorough", What: "3 metrics, d=1, n<=2, <=2 ops incl. Add, all filters (d=2 with <=1 op is H_C01_flat_t3)", Covers: []string{"nonempty-result"}},
			{Name: "H_C01_flat_t3", Tier: "thorough", What: "3 metrics, d<=2, n=3, <=1 op, all filters", Covers: []string{"nonempty-result"}},
			{Name: "H_C01_flat_t4", Tier: "thorough", What: "3 metrics, d=1, n=4, 5 filter patterns", Covers: []string{"nonempty-result"}},
		},
		Bounds:      []string{"quick: n<=3 vectors, dimension<=2, history <= n adds + 3 ops; thorough: n<=4, history <= 2+2 ops", "all float32 vector components and queries (non-NaN distances), k over all of int, threshold over all float32 >= 0, id restriction: every subset of the ids + one foreign id (5 patterns where stated)"},
		Outside:     []string{"dimensions 3..64 (the scan loop is dimension-uniform; Calculate per dimension is C18's)", "more than 4 resident vectors", "re-adding a removed id (C06; C01 quantifies over distinct ids)"},
		Assumptions: idxAssumptions,
		QuickSecs:   900,
		ThoroughSec: 7200,
		LevelNote:   idxNote,
	})
}
