package main

import (
	"bufio"
	"bytes"
	"encoding/json"
	"fmt"
	"os"
	"os/exec"
	"path/filepath"
	"regexp"
	"strings"
	"sync"

	"gosymex/interp"
)

type replayFile struct {
	Harness string               `json:"harness"`
	Label   string               `json:"label"`
	Key     string               `json:"key,omitempty"`
	Tier    string               `json:"tier,omitempty"`
	Inputs  map[string]uint64    `json:"inputs"`
	Kinds   map[string]string    `json:"kinds,omitempty"`
	Chooses []interp.NamedChoice `json:"chooses"`
	Pretty  map[string]string    `json:"pretty,omitempty"`
}

type replayOutcome struct {
	File    string
	Outcome string
}

// replayer builds the harnesses natively (real roaring, real os, real gzip)
// against /repo's working tree and runs replay files through them.
type replayer struct {
	tmp   string
	bin   string
	once  sync.Once
	err   error
	built bool
}

func newReplayer() *replayer { return &replayer{} }

func (r *replayer) cleanup() {
	if r.tmp != "" {
		os.RemoveAll(r.tmp)
	}
}

func (r *replayer) build() error {
	r.once.Do(func() {
		tmp, err := os.MkdirTemp("", "verif-replay-")
		if err != nil {
			r.err = err
			return
		}
		r.tmp = tmp
		ov := struct {
			Replace map[string]string `json:"Replace"`
		}{Replace: map[string]string{}}
		for src, virt := range harnessFiles() {
			ov.Replace[virt] = src
		}
		ov.Replace[filepath.Join(repoDir, "zz_verif_replay_test.go")] = filepath.Join(verifDir, "harness", "replay_test.go.txt")
		// the BSI model compiled natively under vm* names + its differential test against the real library
		if mb, err := os.ReadFile(filepath.Join(verifDir, "engine", "models", "bsi.go.txt")); err == nil {
			txt := string(mb)
			txt = strings.Replace(txt, "package roaring", "//go:build verif\n\npackage comet", 1)
			for _, id := range []string{"NewDefaultBSI", "NewBSI", "BSI", "Operation", "Min64BitSigned", "Max64BitSigned", "RANGE", "LT", "LE", "EQ", "GE", "GT", "MIN", "MAX", "modelError"} {
				txt = regexp.MustCompile(`\b`+id+`\b`).ReplaceAllString(txt, "vm"+id)
			}
			gen := filepath.Join(tmp, "vmbsi.go")
			os.WriteFile(gen, []byte(txt), 0644)
			ov.Replace[filepath.Join(repoDir, "zz_verif_vmbsi.go")] = gen
			ov.Replace[filepath.Join(repoDir, "zz_verif_modeldiff_test.go")] = filepath.Join(verifDir, "harness", "native", "modeldiff_test.go.txt")
		}
		// the repository's own tests are not needed for a replay: stub them out to keep the build short
		stub := filepath.Join(tmp, "stub_test.go")
		os.WriteFile(stub, []byte("package comet\n"), 0644)
		es, _ := os.ReadDir(repoDir)
		for _, e := range es {
			if strings.HasSuffix(e.Name(), "_test.go") {
				ov.Replace[filepath.Join(repoDir, e.Name())] = stub
			}
		}
		b, _ := json.Marshal(ov)
		ovPath := filepath.Join(tmp, "overlay.json")
		os.WriteFile(ovPath, b, 0644)
		r.bin = filepath.Join(tmp, "replay.test")
		cmd := exec.Command("go", "test", "-c", "-tags", "verif", "-vet=off", "-overlay", ovPath, "-o", r.bin, ".")
		cmd.Dir = repoDir
		cmd.Env = append(os.Environ(), "GOFLAGS=-mod=mod", "GOPROXY=off")
		out, err := cmd.CombinedOutput()
		if err != nil {
			r.err = fmt.Errorf("native harness build failed: %v\n%s", err, out)
			return
		}
		r.built = true
	})
	return r.err
}

func (r *replayer) run(files []string) ([]replayOutcome, error) {
	if err := r.build(); err != nil {
		return nil, err
	}
	cmd := exec.Command(r.bin, "-test.run", "^TestVerifReplay$", "-test.v", "-test.timeout", "300s")
	cmd.Dir = repoDir
	cmd.Env = append(os.Environ(), "VERIF_REPLAY="+strings.Join(files, ","))
	out, _ := cmd.CombinedOutput()
	var res []replayOutcome
	sc := bufio.NewScanner(bytes.NewReader(out))
	sc.Buffer(make([]byte, 1<<20), 1<<20)
	for sc.Scan() {
		line := sc.Text()
		if strings.HasPrefix(line, "REPLAY-OUTCOME ") {
			rest := strings.TrimPrefix(line, "REPLAY-OUTCOME ")
			sp := strings.IndexByte(rest, ' ')
			if sp > 0 {
				res = append(res, replayOutcome{rest[:sp], rest[sp+1:]})
			}
		}
	}
	if len(res) != len(files) {
		return res, fmt.Errorf("replay produced %d outcomes for %d files:\n%.2000s", len(res), len(files), out)
	}
	return res, nil
}

func writeReplay(path string, rf replayFile) error {
	b, _ := json.MarshalIndent(rf, "", " ")
	return os.WriteFile(path, b, 0644)
}

// runModelDiff runs the native model-vs-library differential and returns (comparisons, disagreements, first lines).
func (r *replayer) runModelDiff(seed int) (int, int, []string, error) {
	if err := r.build(); err != nil {
		return 0, 0, nil, err
	}
	cmd := exec.Command(r.bin, "-test.run", "^TestVerifModelDiff$", "-test.v", "-test.timeout", "300s")
	cmd.Dir = repoDir
	cmd.Env = append(os.Environ(), fmt.Sprintf("VERIF_SEED=%d", seed))
	out, _ := cmd.CombinedOutput()
	n, bad := -1, -1
	var lines []string
	for _, line := range strings.Split(string(out), "\n") {
		if strings.HasPrefix(line, "MODELDIFF-DISAGREE") {
			lines = append(lines, line)
		}
		if strings.HasPrefix(line, "MODELDIFF comparisons=") {
			fmt.Sscanf(line, "MODELDIFF comparisons=%d disagreements=%d", &n, &bad)
		}
	}
	if n < 0 {
		return 0, 0, nil, fmt.Errorf("model differential did not run:\n%.1500s", out)
	}
	return n, bad, lines, nil
}
