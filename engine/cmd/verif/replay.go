package main

import (
	"bufio"
	"bytes"
	"encoding/json"
	"fmt"
	"os"
	"os/exec"
	"path/filepath"
	"strings"
	"sync"

	"gosymex/interp"
)

type replayFile struct {
	Harness string               `json:"harness"`
	Label   string               `json:"label"`
	Key     string               `json:"key,omitempty"`
	Tier    string               `json:"tier,omitempty"`
	Inputs  map[string]uint64    `json:"inputs"`
	Kinds   map[string]string    `json:"kinds,omitempty"`
	Chooses []interp.NamedChoice `json:"chooses"`
	Pretty  map[string]string    `json:"pretty,omitempty"`
}

type replayOutcome struct {
	File    string
	Outcome string
}

// replayer builds the harnesses natively (real roaring, real os, real gzip)
// against /repo's working tree and runs replay files through them.
type replayer struct {
	tmp   string
	bin   string
	once  sync.Once
	err   error
	built bool
}

func newReplayer() *replayer { return &replayer{} }

func (r *replayer) cleanup() {
	if r.tmp != "" {
		os.RemoveAll(r.tmp)
	}
}

func (r *replayer) build() error {
	r.once.Do(func() {
		tmp, err := os.MkdirTemp("", "verif-replay-")
		if err != nil {
			r.err = err
			return
		}
		r.tmp = tmp
		ov := struct {
			Replace map[string]string `json:"Replace"`
		}{Replace: map[string]string{}}
		for src, virt := range harnessFiles() {
			ov.Replace[virt] = src
		}
		ov.Replace[filepath.Join(repoDir, "zz_verif_replay_test.go")] = filepath.Join(verifDir, "harness", "replay_test.go.txt")
		// the repository's own tests are not needed for a replay: stub them out to keep the build short
		stub := filepath.Join(tmp, "stub_test.go")
		os.WriteFile(stub, []byte("package comet\n"), 0644)
		es, _ := os.ReadDir(repoDir)
		for _, e := range es {
			if strings.HasSuffix(e.Name(), "_test.go") {
				ov.Replace[filepath.Join(repoDir, e.Name())] = stub
			}
		}
		b, _ := json.Marshal(ov)
		ovPath := filepath.Join(tmp, "overlay.json")
		os.WriteFile(ovPath, b, 0644)
		r.bin = filepath.Join(tmp, "replay.test")
		cmd := exec.Command("go", "test", "-c", "-tags", "verif", "-vet=off", "-overlay", ovPath, "-o", r.bin, ".")
		cmd.Dir = repoDir
		cmd.Env = append(os.Environ(), "GOFLAGS=-mod=mod", "GOPROXY=off")
		out, err := cmd.CombinedOutput()
		if err != nil {
			r.err = fmt.Errorf("native harness build failed: %v\n%s", err, out)
			return
		}
		r.built = true
	})
	return r.err
}

func (r *replayer) run(files []string) ([]replayOutcome, error) {
	if err := r.build(); err != nil {
		return nil, err
	}
	cmd := exec.Command(r.bin, "-test.run", "^TestVerifReplay$", "-test.v", "-test.timeout", "300s")
	cmd.Dir = repoDir
	cmd.Env = append(os.Environ(), "VERIF_REPLAY="+strings.Join(files, ","))
	out, _ := cmd.CombinedOutput()
	var res []replayOutcome
	sc := bufio.NewScanner(bytes.NewReader(out))
	sc.Buffer(make([]byte, 1<<20), 1<<20)
	for sc.Scan() {
		line := sc.Text()
		if strings.HasPrefix(line, "REPLAY-OUTCOME ") {
			rest := strings.TrimPrefix(line, "REPLAY-OUTCOME ")
			sp := strings.IndexByte(rest, ' ')
			if sp > 0 {
				res = append(res, replayOutcome{rest[:sp], rest[sp+1:]})
			}
		}
	}
	if len(res) != len(files) {
		return res, fmt.Errorf("replay produced %d outcomes for %d files:\n%.2000s", len(res), len(files), out)
	}
	return res, nil
}

func writeReplay(path string, rf replayFile) error {
	b, _ := json.MarshalIndent(rf, "", " ")
	return os.WriteFile(path, b, 0644)
}
