package main

import "gosymex/interp"

func init() {
	register(&PropSpec{
		ID:    "C14",
		Title: "PQ and IVFPQ rank by exact asymmetric distance to each vector's quantised form",
		Harnesses: []*HarnessSpec{
			{Name: "H_C14_pq", Tier: "quick", What: "PQ, 3 metrics, shapes (dim,M,nbits) in {(1,1,1),(2,2,1),(2,1,1),(1,1,2),(3,1,1)}, symbolic codebooks and vectors (n<=2 for the first shape), query, k (all int), threshold: stored code = nearest codeword per subspace; result = exact top-k by Euclidean distance to the reconstruction", Covers: []string{"searched"}},
			{Name: "H_C14_ivfpq", Tier: "quick", What: "IVFPQ, 3 metrics, shapes {(1,1,1),(2,2,1),(3,1,1)}, nlist<=2, symbolic centroids/codebooks/vectors: assigned to the nearest centroid, residual coded to the nearest codewords, score = distance(query residual, reconstruction), exact top-k over the probed clusters (nprobes in {0,1})", Covers: []string{"full-probe", "partial-probe"}},
			{Name: "H_C14_codesize", Tier: "quick", What: "every Nbits in 1..17 for both constructors: rejected, or the stored code indexes the nearest of 2^Nbits concrete codewords (first / middle / last)", Covers: []string{"accepted", "rejected"}, Opts: interp.JobOpts{MaxSteps: 200_000_000}},
			{Name: "H_C14_train_min", Tier: "quick", What: "Train with the smallest accepted training set (Nbits 1..5, nlist 1..2) does not panic and leaves a usable index", Covers: []string{"trained"}},
			{Name: "H_C14_update", Tier: "quick", What: "PQ and IVFPQ (2 coarse clusters, concrete centroids / codebooks): Remove(id), [Flush,] Add(id) with content in the same or the other cluster, another removal possibly pending; symbolic query coordinate, k any int: exact top-k by reconstruction distance over the live vectors at full probe and over the nearest cluster at one probe, before and after a Flush", Covers: []string{"ran"}},
			{Name: "H_C14_multi", Tier: "quick", What: "a second Execute on the same builder (also after the index has grown), a node query (= the query with that node's stored vector) and a 2-query batch are scored from their own distance tables", Covers: []string{"ran"}},
		},
		Bounds:      []string{"dimension<=3 (sub-vector length 1, 2 and 3), M<=2, nbits<=2 with symbolic codebooks; nbits 1..17 with a concrete codebook (dim=1, M=1)", "n<=2 stored vectors, nlist<=2, nprobes in {0,1}", "k over all of int"},
		Outside:     []string{"(M,dsub)=(2,2): the implementation adds per-subspace partial sums, the reference per dimension — different float expressions", "the 'no more than the quantisation error' sentence (triangle inequality over the reals; a float tolerance law)", "'a vector equal to its reconstruction is reported at its true distance' is the score clause with recon = v substituted; not run separately", "larger training sets, nlist up to 16, M up to 8"},
		Assumptions: idxAssumptions,
		QuickSecs:   900,
		ThoroughSec: 3600,
		LevelNote:   idxNote,
	})
}
