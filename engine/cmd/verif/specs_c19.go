package main

func init() {
	register(&PropSpec{
		ID:    "C19",
		Title: "Result post-processing (aggregate, limit, autocut, fuse, merge) obeys its laws",
		Harnesses: []*HarnessSpec{
			{Name: "H_C19_limit", Tier: "quick", What: "LimitResults / sanitizeK: n<=5 entries, with and without spare capacity behind the length, k any int", Covers: []string{"k-inside", "k-outside", "spare-capacity"}},
			{Name: "H_C19_autocut", Tier: "quick", What: "Autocut / AutocutResults: n<=5 scores (any float32 incl. NaN/Inf), cutoff any int", Covers: []string{"disabled", "enabled"}},
			{Name: "H_C19_agg_vector", Tier: "quick", What: "3 vector aggregations: <=4 entries over ids {1,2,3} in every duplicate pattern, non-NaN float32 scores", Covers: []string{"n>=2"}},
			{Name: "H_C19_agg_text", Tier: "quick", What: "3 text aggregations, same shape", Covers: []string{"n>=2"}},
			{Name: "H_C19_agg_perm", Tier: "quick", What: "order independence of the id->score map: max (<=3 occurrences), sum/mean (2 occurrences)", Covers: []string{"perm"}},
			{Name: "H_C19_agg_nan", Tier: "quick", What: "never panics / each id once with NaN and Inf scores (3 entries)", Covers: []string{"nan-run"}},
			{Name: "H_C19_fusion", Tier: "quick", What: "4 fusion kinds over every membership pattern of 3 ids in the two maps; weights, K>0 symbolic float64", Covers: []string{"both-nonempty", "one-empty"}},
			{Name: "H_C19_merge_large", Tier: "quick", What: "mergeResults / sortResultsByScore on 15..21 entries (3 sources x 5..7 documents, ids repeated across sources; above 12 entries sort.Slice is no longer a stable insertion sort), two symbolic scores at varying positions: each id once, with its highest score; input untouched", Covers: []string{"ran"}},
			{Name: "H_C19_agg_large", Tier: "quick", What: "the six aggregations on 14..21 entries (2..3 sorted per-query lists of 7 hits, identical / overlapping / disjoint id ranges), one symbolic score: each id once, the rule's value, best-first order", Covers: []string{"ran"}},
			{Name: "H_C19_merge", Tier: "quick", What: "mergeResults / sortResultsByScore: <=4 entries over ids {1,2,3}", Covers: []string{"empty", "nonempty"}},
		},
		Lemmas: []string{"L_add0_comm_f32"},
		Bounds:  []string{"lists of 0..5 entries with symbolic scores; 14..21 entries with one or two symbolic scores (H_C19_*_large)", "scores: all float32 values incl. NaN, +-Inf, -0", "k, cutoff: all int values"},
		Outside: []string{"lists longer than the bound ('a few hundred entries')"},
		Assumptions: []string{
			"float arithmetic uninterpreted at T1 (sound over-approximation), IEEE-754 RNE bit-precise at T2 (cvc5)",
			"sort.Slice runs the standard library's pdqsort_func (copied source) with the real less closure",
		},
		QuickSecs: 600,
		LevelNote: "trusted base: go/ssa, the interp fork, SMT encodings of Go int/float ops (validated by native replay of sampled path models), sort.Slice = copied pdqsort_func, z3 4.8.12 and cvc5 1.0.3",
	})
}
