package main

func init() {
	register(&PropSpec{
		ID:    "C19",
		Title: "Result post-processing (aggregate, limit, autocut, fuse, merge) obeys its laws",
		Harnesses: []*HarnessSpec{
			{Name: "H_C19_limit", Tier: "quick", What: "LimitResults / sanitizeK: n<=5 entries, k any int", Covers: []string{"k-inside", "k-outside"}},
			{Name: "H_C19_autocut", Tier: "quick", What: "Autocut / AutocutResults: n<=5 scores (any float32 incl. NaN/Inf), cutoff any int", Covers: []string{"disabled", "enabled"}},
		},
		Bounds:  []string{"lists of 0..5 entries", "scores: all float32 values incl. NaN, +-Inf, -0", "k, cutoff: all int values"},
		Outside: []string{"lists longer than the bound ('a few hundred entries')"},
		Assumptions: []string{
			"float arithmetic uninterpreted at T1 (sound over-approximation), IEEE-754 RNE bit-precise at T2 (cvc5)",
			"sort.Slice modelled as insertion sort calling the real less closure (exact for n<=12)",
		},
		QuickSecs: 600,
	})
}
