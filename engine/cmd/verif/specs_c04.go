package main

var metaAssumptions = []string{
	"roaring.Bitmap replaced by a plain-Go set model; BitSliceIndexing.BSI replaced by a value-level model that reproduces the observable behaviour of roaring v1.9.4's compareValue (including its mixed-sign behaviour) in closed form — validated in every run by a native differential against the real library (18000 comparisons on boundary and seeded random values)",
	"floats are compared as int64(v*100) on both sides (the same term): the float->int conversion is uninterpreted at T1 and assumed in range (|v| < 1e15)",
	"field names and string / bool values are concrete (menus); integer and float values and operands are symbolic",
	"map iteration in sorted key order (one legal Go order)",
}

func init() {
	register(&PropSpec{
		ID:    "C04",
		Title: "Metadata filters return exactly the documents that satisfy the predicate",
		Harnesses: []*HarnessSpec{
			{Name: "H_C04_int", Tier: "quick", What: "integer field: 2 documents with symbolic int64 values (+1 without the field), operators eq ne gt gte lt lte range, operands over all of int64", Covers: []string{"ran"}},
			{Name: "H_C04_int_not", Tier: "quick", What: "Not(.) of the six invertible numeric operators: maps to the complement operator and selects the complement within 'has the field'", Covers: []string{"ran"}},
			{Name: "H_C04_float", Tier: "quick", What: "float field: 2 documents with symbolic float64 values, 7 operators, symbolic operands, two-decimal fixed point", Covers: []string{"ran"}},
			{Name: "H_C04_cat", Tier: "quick", What: "string / bool fields over the menu {\"\", a, b, a:b} or absent, 3 documents: eq ne in not_in exists not_exists and Not(.), operands absent from the data, a field absent from the index", Covers: []string{"ran"}},
			{Name: "H_C04_groups", Tier: "quick", What: "filter trees over 6 filters (string, bool, symbolic integer operand): AND lists, two groups (<=2 x 2) OR-ed, the query builder", Covers: []string{"ran"}},
			{Name: "H_C04_orgroup", Tier: "quick", What: "a filter group with OR inside (2..3 terms from a menu incl. one that matches nothing, in any order), optionally OR-ed with a second AND group; symbolic int64 values and operand: exact id set, index state unchanged", Covers: []string{"ran"}},
			{Name: "H_C04_ctors", Tier: "quick", What: "all 18 exported filter constructors and aliases (Eq..Lte, Range, Between, In, AnyOf, NotIn, NoneOf, Exists, IsNotNull, NotExists, IsNull) judged by what their name promises, symbolic int64 values and operands; the query builder Where/And/Or/Build incl. And on an empty builder and empty Where/Or", Covers: []string{"ran"}},
			{Name: "H_C04_history", Tier: "quick", What: "histories: <=2 of Remove(known/unknown) / re-Add, then 6 filter shapes incl. the empty list: removed documents never returned", Covers: []string{"ran"}},
		},
		ModelDiff:   true,
		Bounds:      []string{"<=3 documents, 4 typed fields (string, bool, int, float) present or absent", "integer values / operands: all of int64; floats: |v| < 1e15", "filter trees <= 2 groups x 2 filters"},
		Outside:     []string{"3 groups x 4 filters", "Not(Range(..)) (returns its argument), ordering operators on a string field and in / not_in on a numeric field (errors, not answers) — kept outside the equality assertion", "a field used with two different value types"},
		Assumptions: metaAssumptions,
		QuickSecs:   1200,
		LevelNote:   idxNote,
	})
}
