package main

import "gosymex/interp"

func init() {
	ei := interp.JobOpts{EI: true, EIRange: 15}
	register(&PropSpec{
		ID:    "C12",
		Title: "HNSW never hides live vectors: non-empty, exact when small, robust to removals",
		Harnesses: []*HarnessSpec{
			{Name: "H_C12_small", Tier: "quick", Opts: ei, What: "EI: n=2..4 adds (levels 0), M=2, ef=8: search non-empty, exact k-NN (n<=2M), every vertex reachable on layer 0; k in {1,n}", Covers: []string{"live", "exact-clause"}},
			{Name: "H_C12_levels", Tier: "quick", Opts: ei, What: "EI: n=2..3 with each node's level draw symbolic (<=1 successful draw per node)", Covers: []string{"live", "exact-clause"}},
			{Name: "H_C12_remove", Tier: "quick", Opts: ei, What: "EI: n=2..3, Remove any vertex (entry point included), optional Flush, optional later Add of a fresh id or of the removed id itself (update): non-empty, exact, reachable", Covers: []string{"live", "exact-clause"}},
			{Name: "H_C12_remove2", Tier: "quick", Opts: ei, What: "EI: n=4, two removals of any two vertices with optional Flush after each", Covers: []string{"live", "exact-clause"}},
			{Name: "H_C12_levels_remove", Tier: "quick", Opts: ei, What: "EI: n=3 with symbolic level draws, 1..2 removals of any vertices, optional Flush, optional later Add (also with a symbolic level): non-empty, exact, reachable", Covers: []string{"live", "exact-clause"}},
			{Name: "H_C12_remove_all", Tier: "quick", Opts: ei, What: "EI: n=1..3 vertices all removed (no flush), then 1..2 new vectors: non-empty, exact; Flush afterwards: reachable", Covers: []string{"live", "exact-clause"}},
			{Name: "H_C12_interleave", Tier: "quick", Opts: ei, What: "EI: 5 steps, each adding the next vector (<=4) or removing any live one: chains of soft-deleted vertices; non-empty, exact", Covers: []string{"live", "exact-clause"}},
			{Name: "H_C12_reach6", Tier: "quick", Opts: ei, What: "EI: 6 vertices (layer-0 pruning starts) in the region 'five within distance 4, the sixth at distance >= 8': reachability", Covers: []string{}},
			{Name: "H_C12_band", Tier: "quick", Opts: ei, What: "EI: ten vertices on a concrete line, a soft-deleted band (start 1..6, width 2..4, optionally the entry-point side too) and one more Add at any integer coordinate (prunes the lists bordering the band): reachability, non-empty, sound", Covers: []string{"live", "built"}},
			{Name: "H_C12_t1", Tier: "quick", What: "T1 (all float32): 3 metrics, d<=2, n=2..3: exact k-NN, reachability", Covers: []string{"exact-clause"}},
			{Name: "H_C12_t1_remove", Tier: "quick", What: "T1: l2 and cosine, n=3, Remove one of the first two (entry point included), optional Flush: non-empty, exact", Covers: []string{"exact-clause"}},
			{Name: "H_C12_small5", Tier: "thorough", Opts: ei, What: "EI: n=5 (> 2M: soundness, non-emptiness, reachability)", Covers: []string{"live"}},
		},
		Bounds:      []string{"M=2, efConstruction=efSearch=8 (12 for 6 vertices), at most 6 vertices", "EI domain: d=1, l2_squared, integer coordinates in [-15,15] (exact, linear encoding of every distance comparison)", "T1 rows: all float32, 3 metrics, d<=2, n<=3", "level draws: fixed to level 0 except H_C12_levels (<=1 successful draw per node)", "histories: adds, then <=2 removals with optional flushes, optional later add"},
		Outside:     []string{"M up to 32, thousands of vectors; the size-uniformity of the exactness clause (complete layer-0 graph while <=2M) is not argued by the solver", "level >= 2", "reachability beyond the stated 6-vertex region (thorough explores n=5 fully)"},
		Assumptions: append([]string{"EI rows restrict float inputs to integers in [-15,15]; on that domain IEEE arithmetic is exact (|t| < 2^24) and t*t is kept as the opaque square Sq(t), comparisons of squares rewritten to |t| ? |u|", "math/rand/v2.Float64 is a symbolic input in [0,1) while a draw budget is granted, else 0.75 (level 0); native replays are retried until the real random levels match the replayed draws"}, idxAssumptions...),
		QuickSecs:   900,
		ThoroughSec: 7200,
		LevelNote:   idxNote,
	})
}
