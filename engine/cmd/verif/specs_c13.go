package main

func init() {
	register(&PropSpec{
		ID:    "C13",
		Title: "IVF is exact at full probe; fewer probes search the nearest clusters exactly",
		Harnesses: []*HarnessSpec{
			{Name: "H_C13_assign", Tier: "quick", What: "one Add: nlist<=3 symbolic centroids, symbolic vector, d<=2, 3 metrics: stored in exactly one list, no other centroid strictly nearer", Covers: []string{"added"}},
			{Name: "H_C13_probe_k", Tier: "quick", What: "nlist=2, n=2, d=1, everything symbolic incl. k and nprobes (all int): full probe == exact top-k; p<nlist == exact top-k of the p nearest clusters; p+1 probes never worse rank by rank", Covers: []string{"full-probe", "partial-probe"}},
			{Name: "H_C13_probe_th", Tier: "quick", What: "nlist=2, n=2 concrete vectors in every assignment pattern, threshold and query symbolic, nprobes in {1,2}", Covers: []string{"full-probe", "partial-probe"}},
			{Name: "H_C13_probe_ops", Tier: "quick", What: "nlist=2, n=3 concrete vectors in every assignment pattern (empty clusters occur), none|Remove|Remove+Flush, id filter, k symbolic, nprobes in {1, 0}", Covers: []string{"full-probe", "partial-probe"}},
			{Name: "H_C13_reuse", Tier: "quick", What: "nlist=3, 4 concrete vectors, p in {1,2} probes, a symbolic first query in [-16,16] and a second query next to any of the three centroids, l2sq / euclidean: one search object executed for the first query and, re-targeted with WithQuery, for the second — each answer is the exact top-k of ITS OWN p nearest clusters; a two-query batch (max rule) holds exactly the per-query hits with the maximum of their scores", Covers: []string{"second-execute", "batch"}},
			{Name: "H_C13_untrained", Tier: "quick", What: "nlist 1..4, d 1..2, 3 metrics: a fresh index is untrained; Add / search (default and full probe) before training and Train with too few vectors are errors and leave it untrained; after Train the index is empty and accepts Add", Covers: []string{"ran"}},
			{Name: "H_C13_ivf_t", Tier: "thorough", What: "nlist=2, n=2: symbolic stored vectors x symbolic k x symbolic nprobes x id filter (no threshold, no removals)", Covers: []string{"full-probe", "partial-probe"}},
			{Name: "H_C13_ivf_t_th", Tier: "thorough", What: "nlist=2, n=2: symbolic stored vectors x symbolic threshold, nprobes in {1, all}", Covers: []string{"full-probe", "partial-probe"}},
			{Name: "H_C13_ivf_t3", Tier: "thorough", What: "nlist=3, n=2 symbolic stored vectors, symbolic k, nprobes in {1,2,3}", Covers: []string{"full-probe", "partial-probe"}},
			{Name: "H_C13_ivf_d2", Tier: "thorough", What: "d=2", Covers: []string{"full-probe", "partial-probe"}},
		},
		Bounds:      []string{"nlist<=2 (3 thorough), n<=3 vectors, d=1 (2 thorough), trained state built directly with symbolic centroids (a superset of what Train produces)", "k, nprobes over all of int; threshold all float32>=0; 3 metrics"},
		Outside:     []string{"training sets up to 500 (k-means itself is C20's)", "ties between centroid distances in the partial-probe clause (assumed distinct)", "nlist up to 32, dimension up to 32"},
		Assumptions: idxAssumptions,
		QuickSecs:   900,
		ThoroughSec: 7200,
		LevelNote:   idxNote,
	})
}
