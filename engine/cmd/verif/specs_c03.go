package main

func init() {
	register(&PropSpec{
		ID:    "C03",
		Title: "BM25 search returns exactly the matching documents with textbook scores",
		Harnesses: []*HarnessSpec{
			{Name: "H_C03_score", Tier: "quick", What: "symbolic statistics: 4 documents / 2 terms built directly under the representation invariant, term frequencies and lengths symbolic ints in [0,1000], optional soft-deleted document, id filter, k any int: match set, Okapi BM25 score (k1=1.2, b=0.75, idf=ln((N-df+.5)/(df+.5)+1)), descending order, top-k (both the full-sort and the bounded min-heap path)", Covers: []string{"full-path", "heap-path"}},
			{Name: "H_C03_step", Tier: "quick", What: "histories of 2..4 operations over Add(fresh) / Add(existing = replace) / Remove / Flush on 2 ids and 3 texts (empty, repeated tokens, full-width + punctuation): representation invariant (numDocs, lengths, totals, avg, tf, postings, nothing left of replaced texts; removed documents counted until Flush) and the search answer against a reference corpus; k symbolic", Covers: []string{"ran"}},
			{Name: "H_C03_many", Tier: "quick", What: "12 documents matching the query (one removed) — more than the default k=10 — k over all of int or left at the default", Covers: []string{"more-than-default-k"}},
			{Name: "H_C03_tokens", Tier: "quick", What: "tokens = UAX#29 segments of the NFKC-normalised lower-cased text: 5 fixed expectations through the real libraries", Covers: []string{"ran"}},
			{Name: "H_C03_multi", Tier: "quick", What: "two, three or four queries (the same string twice, multi-token queries) combined by sum / max / mean (k covering every match): the rule is applied once over all per-query scores of a document", Covers: []string{"ran"}},
			{Name: "H_C03_step_t", Tier: "thorough", What: "histories of 2..3 operations on 3 ids, 6 texts (non-ASCII, ligature, whitespace runs), 6 queries, id filter", Covers: []string{"ran"}},
		},
		Bounds:      []string{"<=4 documents, <=2 query terms with symbolic counts; histories <=3 (4 thorough) operations over a menu of concrete texts", "k over all of int; id restriction from a menu"},
		Outside:     []string{"'every query string': texts and queries come from a finite menu segmented by the real UAX#29 / NFKC libraries (natively called on concrete strings)", "a query that repeats a token (the statement does not say whether it counts twice)", "ties at a per-query k-th place in the multi-query clause", "re-adding a removed id (C06)"},
		Assumptions: []string{"math.Log is an uninterpreted function at both tiers (congruence only); idf is concrete on every path (N and df are concrete)", "norm.NFKC.String, strings.ToLower and uax29 words.FromString are called natively on concrete strings", "roaring.Bitmap replaced by a plain-Go set model; container/heap executed from its real SSA", "expected scores are assumed non-NaN (valid statistics never produce NaN)"},
		QuickSecs:   900,
		ThoroughSec: 3600,
		LevelNote:   idxNote,
	})
}
