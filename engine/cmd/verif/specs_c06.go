package main

func init() {
	register(&PropSpec{
		ID:    "C06",
		Title: "Writes are all-or-nothing, removals are total, and remove+add updates a document",
		Harnesses: []*HarnessSpec{
			{Name: "H_C06_either_or", Tier: "quick", What: "hybrid Add / AddWithID with inputs where it is not obvious whether the library accepts them (NaN / +-Inf / 1e300 float metadata, MinInt64 / MaxInt64, empty key and value, nil value, NaN / Inf vector components, empty text + nil metadata, no vector): whatever Add answers it stands by — refused: every battery answer unchanged and Remove is an error; accepted: findable through every modality supplied, by every metadata key, removable exactly once", Covers: []string{"refused", "accepted"}},
			{Name: "H_C06_failed_add", Tier: "quick", What: "hybrid(flat, text, metadata) Add / AddWithID failing in the 1st (wrong dimension; zero vector under cosine), 2nd (TextIndex wrapper failing on demand) or 3rd sub-index (unsupported value type before / after supported keys): a battery of 11 searches through the hybrid index and each sub-index answers exactly as before; the index keeps working", Covers: []string{"ran"}},
			{Name: "H_C06_ids", Tier: "quick", What: "node ids: one inductive step from an arbitrary uint32 counter (three constructors, strictly increasing); hybrid Add on concrete counters incl. a failed Add in between", Covers: []string{"inductive-step", "hybrid"}},
			{Name: "H_C06_remove", Tier: "quick", What: "5 documents with every subset of modalities: Remove(id) makes it unfindable in all modalities before and after Flush; second Remove and Remove(unknown) fail and change nothing", Covers: []string{"removed", "unknown"}},
			{Name: "H_C06_readd_vector", Tier: "quick", What: "each of the 5 vector kinds alone, the updated document alone / with one other / among twelve residents: Add, [Flush], Remove(id), [Flush], Add(id, new), [Flush], search, Flush, search — all 8 flush placements: the new content is found exactly once and the old is not", Covers: []string{"ran"}},
			{Name: "H_C06_remove_many", Tier: "quick", What: "hybrid(flat, text, metadata), 6 documents, EVERY subset removed (64 masks), one Flush for all pending removals: before and after it every removed document is unfindable in every modality (hybrid and each sub-index) and every other document is still found", Covers: []string{"ran"}},
			{Name: "H_C06_readd_text", Tier: "quick", What: "BM25 alone, all 8 flush placements, plus the representation invariant afterwards", Covers: []string{"ran"}},
			{Name: "H_C06_readd_meta", Tier: "quick", What: "metadata index alone: old categorical and numeric fields gone, new ones found", Covers: []string{"ran"}},
			{Name: "H_C06_readd_hybrid", Tier: "quick", What: "hybrid over flat / hnsw + text + metadata, all 8 flush placements, every modality through the hybrid search", Covers: []string{"ran"}},
		},
		ModelDiff:   true,
		Bounds:      []string{"<=5 documents, histories <=6 operations with the optional Flush at each of three positions", "concrete document contents (the clauses are about which operations take effect); node-id counter symbolic over uint32"},
		Outside:     []string{"id wrap-around after 2^32 adds", "AddWithID of an id that is already live", "failures of Remove inside a sub-index"},
		Assumptions: append([]string{"sync/atomic = sequentially consistent cells"}, metaAssumptions...),
		QuickSecs:   900,
		LevelNote:   idxNote,
	})
}
