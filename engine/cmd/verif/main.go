// verif — driver of the gosymex checks (DESIGN.md §9).
//
//	verif check <ID> [--tier quick|thorough]   run the check of one property
//	verif replay <file>                       replay a counterexample natively
//	verif worker                              (internal) exploration worker
//	verif run <harness> [--ei]                explore one harness, print totals (debugging)
//	verif concrete <harness> <replay.json>    run one harness concretely inside the engine
//	verif list                                list properties and harnesses
package main

import (
	"encoding/json"
	"flag"
	"fmt"
	"os"
	"runtime"
	"strconv"
	"strings"
	"time"

	"gosymex/interp"
)

func main() {
	if len(os.Args) < 2 {
		fmt.Fprintln(os.Stderr, "usage: verif check|replay|worker|run|concrete|list ...")
		os.Exit(2)
	}
	switch os.Args[1] {
	case "worker":
		cmdWorker()
	case "check":
		os.Exit(cmdCheck(os.Args[2:]))
	case "run":
		os.Exit(cmdRun(os.Args[2:]))
	case "replay":
		os.Exit(cmdReplay(os.Args[2:]))
	case "concrete":
		os.Exit(cmdConcrete(os.Args[2:]))
	case "modeldiff":
		os.Exit(cmdModelDiff())
	case "manifest":
		os.Exit(cmdManifest())
	case "list":
		for _, id := range specOrder {
			s := specs[id]
			fmt.Println(id, s.Title)
			for _, h := range s.Harnesses {
				fmt.Printf("    %-34s tier=%-8s %s\n", h.Name, h.Tier, h.What)
			}
		}
	default:
		fmt.Fprintln(os.Stderr, "unknown command", os.Args[1])
		os.Exit(2)
	}
}

func cmdWorker() {
	pkg, err := loadRepo()
	if err != nil {
		// report the failure as the result of every job
		m := func(v interface{}) []byte { b, _ := json.Marshal(v); return b }
		var job interp.Job
		dec := json.NewDecoder(os.Stdin)
		for dec.Decode(&job) == nil {
			os.Stdout.Write(append(m(interp.JobResult{Harness: job.Harness, Fatal: err.Error()}), '\n'))
		}
		return
	}
	m := interp.NewMachine(pkg)
	m.Serve(os.Stdin, os.Stdout, json.Unmarshal, func(v interface{}) []byte { b, _ := json.Marshal(v); return b })
}

func nWorkers() int {
	if v := os.Getenv("VERIF_WORKERS"); v != "" {
		if n, err := strconv.Atoi(v); err == nil && n > 0 {
			return n
		}
	}
	n := runtime.NumCPU()
	if n > 16 {
		n = 16
	}
	return n
}

func cmdRun(args []string) int {
	fs := flag.NewFlagSet("run", flag.ExitOnError)
	ei := fs.Bool("ei", false, "exact-integer float domain")
	eir := fs.Int64("ei-range", 15, "EI input range")
	maxp := fs.Int("max-paths", 0, "path budget")
	not2 := fs.Bool("no-t2", false, "skip T2")
	secs := fs.Int("seconds", 600, "deadline")
	fs.Parse(args[1:])
	h := &HarnessSpec{Name: args[0], Opts: interp.JobOpts{EI: *ei, EIRange: *eir, NoT2: *not2}, MaxPaths: *maxp}
	res := explore([]*HarnessSpec{h}, nWorkers(), time.Now().Add(time.Duration(*secs)*time.Second), nil)
	t := res.totals[h.Name]
	b, _ := json.MarshalIndent(t.Stats, "", " ")
	fmt.Println(string(b))
	fmt.Println("wall", res.wall, "jobs", t.Jobs, "timedOut", res.timedOut, "truncated", t.Truncated)
	fmt.Println("covers", t.Covers)
	if t.Fatal != "" {
		fmt.Println("FATAL:", t.Fatal)
	}
	for _, u := range t.Unwinds {
		fmt.Println("UNWIND:", u)
	}
	for _, e := range t.Errors {
		fmt.Println("ERROR:", e)
	}
	seen := map[string]int{}
	for _, c := range t.Candidates {
		k := candKey(c)
		seen[k]++
		if seen[k] <= 2 {
			cb, _ := json.Marshal(c)
			fmt.Println("CANDIDATE:", k, "\n   ", string(cb))
		}
	}
	for k, n := range seen {
		fmt.Println("KEY", n, k)
	}
	return 0
}

func cmdConcrete(args []string) int {
	if len(args) < 2 {
		fmt.Fprintln(os.Stderr, "usage: verif concrete <harness> <replay.json>")
		return 2
	}
	pkg, err := loadRepo()
	if err != nil {
		fmt.Fprintln(os.Stderr, err)
		return 2
	}
	var rf replayFile
	b, err := os.ReadFile(args[1])
	if err == nil {
		err = json.Unmarshal(b, &rf)
	}
	if err != nil {
		fmt.Fprintln(os.Stderr, err)
		return 2
	}
	m := interp.NewMachine(pkg)
	obs, fatal := m.RunConcrete(args[0], rf.Inputs, rf.Chooses)
	for _, o := range obs {
		fmt.Println(o)
	}
	if fatal != "" {
		fmt.Println("FATAL:", fatal)
		return 2
	}
	return 0
}

func cmdReplay(args []string) int {
	if len(args) < 1 {
		fmt.Fprintln(os.Stderr, "usage: verif replay <file>")
		return 2
	}
	rb := newReplayer()
	defer rb.cleanup()
	if err := rb.build(); err != nil {
		fmt.Println("INCONCLUSIVE reason=harness-build", err)
		return 2
	}
	out, err := rb.run(args)
	if err != nil {
		fmt.Println("replay failed:", err)
		return 2
	}
	code := 0
	for _, o := range out {
		fmt.Println("REPLAY", o.File, o.Outcome)
		if strings.HasPrefix(o.Outcome, "ASSERT-FAIL") || strings.HasPrefix(o.Outcome, "PANIC") {
			code = 1
		}
	}
	return code
}

func cmdModelDiff() int {
	rp := newReplayer()
	defer rp.cleanup()
	n, bad, lines, err := rp.runModelDiff(1)
	fmt.Println("comparisons", n, "disagreements", bad, err)
	for _, l := range lines {
		fmt.Println(l)
	}
	if bad > 0 || err != nil {
		return 1
	}
	return 0
}
