package main

var specOrder = []string{}
var specs = map[string]*PropSpec{}

func register(p *PropSpec) {
	specs[p.ID] = p
	specOrder = append(specOrder, p.ID)
}
