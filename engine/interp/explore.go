package interp

// Stateless (re-execution) exploration of a harness over decision vectors,
// T1 solver process, assertion checking, T2 refutation / concretisation.

import (
	"bufio"
	"bytes"
	"fmt"
	"go/token"
	"go/types"
	"io"
	"os"
	"os/exec"
	"sort"
	"strconv"
	"strings"
	"time"

	"golang.org/x/tools/go/ssa"
)

// ---------- solver process (T1) ----------

type solver struct {
	cmd     *exec.Cmd
	in      *bufio.Writer
	out     *bufio.Reader
	Queries int
	Time    time.Duration
	depth   int
	started time.Time
}

func startSolver() *solver {
	cmd := exec.Command("z3", "-in", "-T:3600") // hard cap of the process; it is restarted long before (beginPath)
	in, _ := cmd.StdinPipe()
	out, _ := cmd.StdoutPipe()
	cmd.Stderr = os.Stderr
	if err := cmd.Start(); err != nil {
		panic(engineError{"cannot start z3: " + err.Error()})
	}
	s := &solver{cmd: cmd, in: bufio.NewWriterSize(in, 1<<16), out: bufio.NewReader(out), started: time.Now()}
	s.in.WriteString(preludeT1())
	s.in.WriteString("(set-option :timeout 20000)\n")
	return s
}

func (s *solver) stop() {
	if s == nil || s.cmd == nil {
		return
	}
	s.in.WriteString("(exit)\n")
	s.in.Flush()
	s.cmd.Process.Kill()
	s.cmd.Wait()
}

func (s *solver) flushDefs() {
	for _, d := range TT.pending {
		s.in.WriteString(d.decl())
		s.in.WriteString("\n")
	}
	TT.pending = TT.pending[:0]
}

func (s *solver) send(cmd string) {
	s.flushDefs()
	s.in.WriteString(cmd)
	s.in.WriteString("\n")
}

func (s *solver) readLine() string {
	s.in.Flush()
	line, err := s.out.ReadString('\n')
	if err != nil {
		panic(engineError{"solver died: " + err.Error()})
	}
	line = strings.TrimSpace(line)
	if strings.HasPrefix(line, "(error") {
		panic(engineError{"solver error: " + line})
	}
	return line
}

// check asks whether PC ∧ extra is satisfiable ("sat" / "unsat" / "unknown").
func (s *solver) check(extra string) string {
	t0 := time.Now()
	s.flushDefs()
	if extra != "" {
		s.in.WriteString("(push)\n(assert " + extra + ")\n(check-sat)\n(pop)\n")
	} else {
		s.in.WriteString("(check-sat)\n")
	}
	line := s.readLine()
	s.Queries++
	s.Time += time.Since(t0)
	X.Stats.T1Queries++
	X.Stats.T1Time += time.Since(t0).Seconds()
	return line
}

// checkModel is check + (get-value names) when sat.
func (s *solver) checkModel(extra string, names []string) (string, map[string]string) {
	t0 := time.Now()
	s.flushDefs()
	s.in.WriteString("(push)\n(assert " + extra + ")\n(check-sat)\n")
	line := s.readLine()
	var model map[string]string
	if line == "sat" && len(names) > 0 {
		s.in.WriteString("(get-value (" + strings.Join(names, " ") + "))\n")
		model = parseGetValue(s.readSexp())
	}
	s.in.WriteString("(pop)\n")
	s.Queries++
	s.Time += time.Since(t0)
	X.Stats.T1Queries++
	X.Stats.T1Time += time.Since(t0).Seconds()
	return line, model
}

// readSexp reads one balanced s-expression from the solver.
func (s *solver) readSexp() string {
	s.in.Flush()
	var sb strings.Builder
	depth := 0
	started := false
	for {
		c, err := s.out.ReadByte()
		if err != nil {
			panic(engineError{"solver died while reading model"})
		}
		sb.WriteByte(c)
		if c == '(' {
			depth++
			started = true
		} else if c == ')' {
			depth--
		}
		if started && depth == 0 {
			break
		}
	}
	// consume rest of line
	s.out.ReadString('\n')
	r := sb.String()
	if strings.HasPrefix(strings.TrimSpace(r), "(error") {
		panic(engineError{"solver error: " + r})
	}
	return r
}

// parseGetValue parses "((name value) (name value) ...)" into name -> value text.
func parseGetValue(s string) map[string]string {
	out := map[string]string{}
	s = strings.TrimSpace(s)
	if len(s) < 2 {
		return out
	}
	s = s[1 : len(s)-1]
	i := 0
	for i < len(s) {
		for i < len(s) && s[i] != '(' {
			i++
		}
		if i >= len(s) {
			break
		}
		// find matching paren
		d := 0
		j := i
		for ; j < len(s); j++ {
			if s[j] == '(' {
				d++
			} else if s[j] == ')' {
				d--
				if d == 0 {
					break
				}
			}
		}
		pair := strings.TrimSpace(s[i+1 : j])
		sp := strings.IndexAny(pair, " \t\n")
		if sp > 0 {
			out[pair[:sp]] = strings.TrimSpace(pair[sp+1:])
		}
		i = j + 1
	}
	return out
}

// valueBits decodes an SMT value of the given kind into its bit pattern.
func valueBits(k types.BasicKind, v string) (uint64, bool) {
	v = strings.TrimSpace(v)
	switch {
	case v == "true":
		return 1, true
	case v == "false":
		return 0, true
	case strings.HasPrefix(v, "#x"):
		u, err := strconv.ParseUint(v[2:], 16, 64)
		return u, err == nil
	case strings.HasPrefix(v, "#b"):
		u, err := strconv.ParseUint(v[2:], 2, 64)
		return u, err == nil
	case strings.HasPrefix(v, "(_ bv"):
		f := strings.Fields(v[5:])
		u, err := strconv.ParseUint(f[0], 10, 64)
		return u, err == nil
	case strings.HasPrefix(v, "(fp "):
		f := strings.Fields(strings.TrimSuffix(v[4:], ")"))
		if len(f) != 3 {
			return 0, false
		}
		var parts [3]uint64
		var widths [3]int
		for i, p := range f {
			p = strings.TrimSuffix(p, ")")
			switch {
			case strings.HasPrefix(p, "#b"):
				u, err := strconv.ParseUint(p[2:], 2, 64)
				if err != nil {
					return 0, false
				}
				parts[i], widths[i] = u, len(p)-2
			case strings.HasPrefix(p, "#x"):
				u, err := strconv.ParseUint(p[2:], 16, 64)
				if err != nil {
					return 0, false
				}
				parts[i], widths[i] = u, 4*(len(p)-2)
			default:
				return 0, false
			}
		}
		return parts[0]<<uint(widths[1]+widths[2]) | parts[1]<<uint(widths[2]) | parts[2], true
	case strings.HasPrefix(v, "(_ +zero"):
		return 0, true
	case strings.HasPrefix(v, "(_ -zero"):
		if k == types.Float32 {
			return 1 << 31, true
		}
		return 1 << 63, true
	case strings.HasPrefix(v, "(_ +oo"):
		if k == types.Float32 {
			return 0x7f800000, true
		}
		return 0x7ff0000000000000, true
	case strings.HasPrefix(v, "(_ -oo"):
		if k == types.Float32 {
			return 0xff800000, true
		}
		return 0xfff0000000000000, true
	case strings.HasPrefix(v, "(_ NaN"):
		if k == types.Float32 {
			return 0x7fc00000, true
		}
		return 0x7ff8000000000000, true
	case strings.HasPrefix(v, "(- "):
		n, err := strconv.ParseInt(strings.TrimSpace(strings.TrimSuffix(v[3:], ")")), 10, 64)
		return uint64(-n), err == nil
	default:
		n, err := strconv.ParseInt(v, 10, 64)
		return uint64(n), err == nil
	}
}

// ---------- exploration context ----------

type pathAbort struct{ why string }

type Candidate struct {
	Harness  string            `json:"harness"`
	Label    string            `json:"label"`
	Kind     string            `json:"kind"` // assert | panic
	Tags     []string          `json:"tags"`
	Trace    []int64           `json:"trace"`
	Chooses  []NamedChoice     `json:"chooses"`
	Inputs   map[string]uint64 `json:"inputs"` // input name -> bit pattern
	Kinds    map[string]string `json:"kinds"`
	Tier     string            `json:"tier"` // which tier produced the model
	T2       string            `json:"t2"`   // sat | unsat | unknown | skipped
	Detail   string            `json:"detail"`
	PCSize   int               `json:"pc_size"`
	IntInput map[string]int64  `json:"int_inputs,omitempty"` // EI inputs
}

type NamedChoice struct {
	Name string `json:"name"`
	Val  int    `json:"val"`
}

type Sample struct {
	Harness string            `json:"harness"`
	Label   string            `json:"label"`
	Tier    string            `json:"tier"`
	PCSize  int               `json:"pc_size"`
	Chooses []NamedChoice     `json:"chooses"`
	Inputs  map[string]uint64 `json:"inputs,omitempty"`
	Kinds   map[string]string `json:"kinds,omitempty"`
}

type Stats struct {
	Paths, Aborted, Asserts, AssertT0, AssertT1, AssertT2 int
	Symbolic                                               int // asserts whose final query had a symbolic variable
	T2Unknown                                              int
	Candidates                                             int
	Unwind                                                 int
	T1Queries                                              int
	T1Time, T2Time                                         float64
	T2Queries                                              int
	Steps                                                  int64
	Merged                                                 int // if-converted diamonds
}

type pcEntry struct {
	s   *Sym
	pos bool
}

type Explorer struct {
	Harness string
	EIMode  bool
	EIRange int64

	Z *solver

	Prefix []int64
	Trace  []int64
	Work   [][]int64

	pc      []pcEntry
	pcSet   map[*Sym]bool // sym -> polarity asserted
	touched map[*Sym]bool
	tags    []string
	chooses []NamedChoice

	Stats      Stats
	Covers     map[string]int
	Funcs      map[string]bool
	Candidates []Candidate
	Samples    []Sample
	Unwinds    []string
	Errors     []string

	// concrete mode
	Concrete  bool
	Values    map[string]uint64
	Choices   []NamedChoice
	choicePos int
	Observed  []string

	// limits
	MaxSteps      int64
	MaxEnum       int
	T2Timeout     int // seconds
	MaxCandidates int
	NoT2          bool

	lemmaSqAbs            bool
	randBudget, randCount int
	pathSteps             int64
	pathsSinceRestart     int
	sampleEvery           int
	wantModelSample       bool
}

var X = &Explorer{EIRange: 15}

func touch(s *Sym) {
	if s.axiom == "" || X.touched == nil || X.touched[s] {
		return
	}
	X.touched[s] = true
	if X.Z != nil {
		X.Z.send("(assert " + s.axiom + ")")
	}
}

func (x *Explorer) beginPath(prefix []int64) {
	x.Prefix = prefix
	x.Trace = x.Trace[:0]
	x.pc = x.pc[:0]
	x.pcSet = map[*Sym]bool{}
	x.touched = map[*Sym]bool{}
	x.tags = nil
	x.chooses = nil
	x.randBudget, x.randCount = 0, 0
	mapOrderReverse = mapOrderBase
	gzReadChunk = 0
	randCalls = 0
	lastPanicWhere = ""
	x.lemmaSqAbs = false
	x.pathSteps = 0
	x.choicePos = 0
	x.Observed = nil
	if x.Concrete {
		return
	}
	x.pathsSinceRestart++
	if x.Z == nil || x.pathsSinceRestart > 1500 || time.Since(x.Z.started) > 5*time.Minute {
		x.Z.stop()
		resetTerms()
		x.Z = startSolver()
		x.Z.send("(push)")
		x.pathsSinceRestart = 0
	}
	x.Z.send("(pop)")
	x.Z.send("(push)")
}

func (x *Explorer) assertPC(c *Sym, pos bool) {
	x.pcSet[c] = pos
	x.pc = append(x.pc, pcEntry{c, pos})
	if pos {
		x.Z.send("(assert " + c.name + ")")
	} else {
		x.Z.send("(assert (not " + c.name + "))")
	}
}

func lit(c *Sym, pos bool) string {
	if pos {
		return c.name
	}
	return "(not " + c.name + ")"
}

// normalise strips negations so that the PC set is keyed by the positive atom.
func normLit(c *Sym) (*Sym, bool) {
	pos := true
	for c.op == "not" {
		c = c.args[0].(*Sym)
		pos = !pos
	}
	return c, pos
}

func (x *Explorer) known(c *Sym) (bool, bool) {
	a, pos := normLit(c)
	if p, ok := x.pcSet[a]; ok {
		return p == pos, true
	}
	return false, false
}

func (x *Explorer) solverCheck(extra string) string {
	r := x.Z.check(extra)
	if r != "sat" && r != "unsat" {
		// unknown / timeout at T1: treat as feasible (sound for pruning: keeping an infeasible path only costs time)
		return "unknown"
	}
	return r
}

func decideBool(c *Sym) bool {
	x := X
	if v, ok := x.known(c); ok {
		return v
	}
	a, apos := normLit(c)
	i := len(x.Trace)
	if i < len(x.Prefix) {
		d := x.Prefix[i]
		x.Trace = append(x.Trace, d)
		x.assertPC(a, (d == 1) == apos)
		return d == 1
	}
	rT := x.solverCheck(c.name)
	satT := rT != "unsat"
	satF := true
	if satT {
		satF = x.solverCheck("(not "+c.name+")") != "unsat"
	}
	switch {
	case satT && satF:
		alt := append(append(make([]int64, 0, len(x.Trace)+1), x.Trace...), 0)
		x.Work = append(x.Work, alt)
		x.Trace = append(x.Trace, 1)
		x.assertPC(a, apos)
		return true
	case satT:
		x.Trace = append(x.Trace, 1)
		x.assertPC(a, apos)
		return true
	default:
		x.Trace = append(x.Trace, 0)
		x.assertPC(a, !apos)
		return false
	}
}

// asBool turns a (possibly symbolic) boolean into a concrete one by a decision.
func asBool(v value) bool {
	switch c := v.(type) {
	case bool:
		return c
	case *Sym:
		return decideBool(c)
	}
	panic(fmt.Sprintf("asBool %T", v))
}

func (x *Explorer) choose(name string, n int) int {
	if n <= 0 {
		panic(engineError{"vChoose with n <= 0"})
	}
	if x.Concrete {
		if x.choicePos < len(x.Choices) {
			c := x.Choices[x.choicePos]
			x.choicePos++
			x.chooses = append(x.chooses, NamedChoice{name, c.Val})
			if c.Val >= n {
				panic(pathAbort{"replay choice out of range"})
			}
			return c.Val
		}
		x.chooses = append(x.chooses, NamedChoice{name, 0})
		return 0
	}
	i := len(x.Trace)
	if i < len(x.Prefix) {
		d := x.Prefix[i]
		x.Trace = append(x.Trace, d)
		x.chooses = append(x.chooses, NamedChoice{name, int(d)})
		return int(d)
	}
	for v := n - 1; v >= 1; v-- {
		alt := append(append(make([]int64, 0, len(x.Trace)+1), x.Trace...), int64(v))
		x.Work = append(x.Work, alt)
	}
	x.Trace = append(x.Trace, 0)
	x.chooses = append(x.chooses, NamedChoice{name, 0})
	return 0
}

// concretize enumerates the feasible values of a symbolic integer (bounded by
// MaxEnum; exceeding it is an unwinding failure) and forks over them.
func concretize(s *Sym) int64 {
	x := X
	i := len(x.Trace)
	w := widthOf(s.kind)
	eqText := func(v int64) string {
		u := uint64(v)
		if w < 64 {
			u &= (1 << uint(w)) - 1
		}
		return fmt.Sprintf("(= %s (_ bv%d %d))", s.name, u, w)
	}
	assertEq := func(v int64) {
		c := mk(types.Bool, "eqc", eqText(v), s)
		x.assertPC(c, true)
	}
	if i < len(x.Prefix) {
		v := x.Prefix[i]
		x.Trace = append(x.Trace, v)
		assertEq(v)
		return v
	}
	var vals []int64
	x.Z.send("(push)")
	for {
		x.Z.flushDefs()
		t0 := time.Now()
		x.Z.in.WriteString("(check-sat)\n")
		r := x.Z.readLine()
		x.Z.Queries++
		x.Z.Time += time.Since(t0)
		x.Stats.T1Queries++
		x.Stats.T1Time += time.Since(t0).Seconds()
		if r == "unsat" {
			break
		}
		if r != "sat" {
			x.Z.send("(pop)")
			x.unwind("concretize: solver " + r)
		}
		x.Z.in.WriteString("(get-value (" + s.name + "))\n")
		m := parseGetValue(x.Z.readSexp())
		u, ok := valueBits(s.kind, m[s.name])
		if !ok {
			panic(engineError{"concretize: cannot parse model value " + m[s.name]})
		}
		var v int64
		if isSigned(s.kind) {
			switch w {
			case 8:
				v = int64(int8(u))
			case 16:
				v = int64(int16(u))
			case 32:
				v = int64(int32(u))
			default:
				v = int64(u)
			}
		} else {
			v = int64(u)
		}
		vals = append(vals, v)
		if len(vals) > x.MaxEnum {
			x.Z.send("(pop)")
			x.unwind(fmt.Sprintf("concretize: more than %d feasible values", x.MaxEnum))
		}
		x.Z.send("(assert (not " + eqText(v) + "))")
	}
	x.Z.send("(pop)")
	if len(vals) == 0 {
		panic(pathAbort{"concretize: infeasible"})
	}
	sort.Slice(vals, func(a, b int) bool { return vals[a] < vals[b] })
	for j := len(vals) - 1; j >= 1; j-- {
		alt := append(append(make([]int64, 0, len(x.Trace)+1), x.Trace...), vals[j])
		x.Work = append(x.Work, alt)
	}
	x.Trace = append(x.Trace, vals[0])
	assertEq(vals[0])
	return vals[0]
}

func (x *Explorer) unwind(why string) {
	x.Stats.Unwind++
	if len(x.Unwinds) < 20 {
		x.Unwinds = append(x.Unwinds, why+" @ "+whereAmI())
	}
	panic(pathAbort{"unwind"})
}

var CallStack []string
var lastPanicWhere string

func curStack() *[]string {
	if S != nil && S.cur != nil {
		return &S.cur.stack
	}
	return &CallStack
}

func whereAmI() string {
	st := *curStack()
	n := len(st)
	if n == 0 {
		return "?"
	}
	lo := n - 4
	if lo < 0 {
		lo = 0
	}
	return strings.Join(st[lo:], " > ")
}

// ---------- assertions ----------

func inputsOf(roots []*Sym) []*Sym {
	var ins []*Sym
	for _, s := range cone(roots) {
		if s.input {
			ins = append(ins, s)
		}
	}
	return ins
}

func (x *Explorer) pcRoots(extra *Sym) []*Sym {
	roots := make([]*Sym, 0, len(x.pc)+1)
	for _, e := range x.pc {
		roots = append(roots, e.s)
	}
	if extra != nil {
		roots = append(roots, extra)
	}
	return roots
}

func (x *Explorer) modelOf(ins []*Sym, m map[string]string) (map[string]uint64, map[string]string, map[string]int64) {
	vals := map[string]uint64{}
	kinds := map[string]string{}
	ints := map[string]int64{}
	for _, in := range ins {
		nm := strings.TrimPrefix(in.name, "in_")
		if in.ei {
			u, _ := valueBits(types.Int64, m[in.name])
			ints[nm] = int64(u)
			f := float32(int64(u))
			vals[nm] = uint64(mathFloat32bits(f))
			kinds[nm] = "float32"
			continue
		}
		u, ok := valueBits(in.kind, m[in.name])
		if !ok {
			continue
		}
		vals[nm] = u
		kinds[nm] = types.Typ[in.kind].Name()
	}
	return vals, kinds, ints
}

func hasFloatArith(roots []*Sym) bool {
	for _, s := range cone(roots) {
		switch s.op {
		case "fadd", "fsub", "fmul", "fdiv", "fsqrt", "f2f", "i2f", "f2i", "fround", "tobits":
			return true
		}
	}
	return false
}

func (x *Explorer) vAssert(c value, label string) {
	x.Stats.Asserts++
	switch cv := c.(type) {
	case bool:
		if !cv {
			if x.Concrete {
				x.Observed = append(x.Observed, "ASSERT-FAIL "+label)
				panic(pathAbort{"violation"})
			}
			x.report(nil, label, "assert")
			panic(pathAbort{"violation"})
		}
		x.Stats.AssertT0++
	case *Sym:
		if v, ok := x.known(cv); ok && v {
			x.Stats.AssertT0++
			return
		}
		x.Stats.Symbolic++
		neg := symNot(cv).(*Sym)
		r := x.Z.check(neg.name)
		if r == "unsat" {
			x.Stats.AssertT1++
			x.sample(label, "T1", nil)
			a, pos := normLit(cv)
			x.assertPC(a, pos)
			return
		}
		// T1 says sat (or unknown): try to refute bit-precisely, else report
		if x.report(neg, label, "assert") {
			// refuted at T2
			x.Stats.AssertT2++
			x.sample(label, "T2", nil)
			a, pos := normLit(cv)
			x.assertPC(a, pos)
			return
		}
		// continue the path on the side where the assertion holds, if any
		if x.solverCheck(cv.name) == "unsat" {
			panic(pathAbort{"violation"})
		}
		a, pos := normLit(cv)
		x.assertPC(a, pos)
	default:
		panic(engineError{fmt.Sprintf("vAssert on %T", c)})
	}
}

func (x *Explorer) sample(label, tier string, _ interface{}) {
	if len(x.Samples) >= 6 {
		return
	}
	x.sampleEvery++
	if x.sampleEvery%37 != 1 {
		return
	}
	x.Samples = append(x.Samples, Sample{Harness: x.Harness, Label: label, Tier: tier, PCSize: len(x.pc), Chooses: append([]NamedChoice(nil), x.chooses...)})
}

// report handles a T1-satisfiable negated assertion (neg == nil: concrete
// failure or panic).  It returns true when T2 refuted it.
func (x *Explorer) report(neg *Sym, label, kind string) bool {
	roots := x.pcRoots(neg)
	ins := inputsOf(roots)
	names := make([]string, len(ins))
	for i, in := range ins {
		names[i] = in.name
	}
	cand := Candidate{Harness: x.Harness, Label: label, Kind: kind, Tags: append([]string(nil), x.tags...),
		Trace: append([]int64(nil), x.Trace...), Chooses: append([]NamedChoice(nil), x.chooses...), PCSize: len(x.pc), T2: "skipped", Tier: "T1"}
	// T1 model
	extra := "true"
	if neg != nil {
		extra = neg.name
	}
	r, m := x.Z.checkModel(extra, names)
	if r == "unsat" {
		return true
	}
	if r == "sat" {
		cand.Inputs, cand.Kinds, cand.IntInput = x.modelOf(ins, m)
	}
	needT2 := hasFloatArith(roots) && !x.NoT2
	if needT2 {
		res, m2 := x.runT2(roots, neg, names)
		cand.T2 = res
		switch res {
		case "unsat":
			return true // the path itself (or the negated assertion on it) has no bit-precise model
		case "sat":
			cand.Tier = "T2"
			cand.Inputs, cand.Kinds, cand.IntInput = x.modelOf(ins, m2)
		default:
			x.Stats.T2Unknown++
		}
	}
	x.Stats.Candidates++
	if len(x.Candidates) < x.MaxCandidates {
		x.Candidates = append(x.Candidates, cand)
	}
	return false
}

// runT2 re-emits the cone of the path condition with the float functions
// defined bit-precisely and asks cvc5.
func (x *Explorer) runT2(roots []*Sym, neg *Sym, names []string) (string, map[string]string) {
	var sb bytes.Buffer
	sb.WriteString("(set-logic ALL)\n(set-option :produce-models true)\n")
	sb.WriteString(strings.Replace(preludeT2(), "(set-option :global-declarations true)\n", "", 1))
	seen := map[string]bool{}
	for _, s := range cone(roots) {
		if s.sq != nil || seen[s.name] {
			continue
		}
		seen[s.name] = true
		sb.WriteString(s.decl())
		sb.WriteString("\n")
		if s.axiom != "" {
			sb.WriteString("(assert " + s.axiom + ")\n")
		}
	}
	for _, e := range x.pc {
		sb.WriteString("(assert " + lit(e.s, e.pos) + ")\n")
	}
	if neg != nil {
		sb.WriteString("(assert " + neg.name + ")\n")
	}
	sb.WriteString("(check-sat)\n")
	if len(names) > 0 {
		sb.WriteString("(get-value (" + strings.Join(names, " ") + "))\n")
	}
	t0 := time.Now()
	x.Stats.T2Queries++
	defer func() { x.Stats.T2Time += time.Since(t0).Seconds() }()
	if d := os.Getenv("VERIF_DUMP_T2"); d != "" {
		os.WriteFile(fmt.Sprintf("%s/t2-%d-%d.smt2", d, os.Getpid(), x.Stats.T2Queries), sb.Bytes(), 0644)
	}
	cmd := exec.Command("timeout", fmt.Sprint(x.T2Timeout+5), "cvc5", "--lang=smt2", fmt.Sprintf("--tlimit=%d", x.T2Timeout*1000), "--fp-exp")
	cmd.Stdin = &sb
	out, _ := cmd.Output()
	txt := string(out)
	if fl := firstLine(txt); fl == "unsat" {
		return "unsat", nil
	}
	if strings.Contains(txt, "(error") {
		x.Errors = append(x.Errors, "cvc5: "+firstLine(txt[strings.Index(txt, "(error"):]))
		return "error", nil
	}
	first := firstLine(txt)
	switch first {
	case "unsat":
		return "unsat", nil
	case "sat":
		rest := strings.TrimSpace(txt[len(first):])
		return "sat", parseGetValue(rest)
	}
	return "unknown", nil
}

func firstLine(s string) string {
	s = strings.TrimSpace(s)
	if i := strings.IndexByte(s, '\n'); i >= 0 {
		return s[:i]
	}
	return s
}

func (x *Explorer) vAssume(c value) {
	switch cv := c.(type) {
	case bool:
		if !cv {
			panic(pathAbort{"assume false"})
		}
	case *Sym:
		if v, ok := x.known(cv); ok {
			if !v {
				panic(pathAbort{"assume infeasible"})
			}
			return
		}
		if x.solverCheck(cv.name) == "unsat" {
			panic(pathAbort{"assume infeasible"})
		}
		a, pos := normLit(cv)
		x.assertPC(a, pos)
	}
}

// ---------- driving one job ----------

type Job struct {
	Harness string    `json:"harness"`
	Prefix  []int64   `json:"prefix"`
	Budget  int       `json:"budget"`   // max paths before handing the rest back
	Seconds float64   `json:"seconds"`  // max wall time before handing the rest back
	Opts    JobOpts   `json:"opts"`
}

type JobOpts struct {
	EI            bool   `json:"ei"`
	EIRange       int64  `json:"ei_range"`
	MaxSteps      int64  `json:"max_steps"`
	MaxEnum       int    `json:"max_enum"`
	T2Timeout     int    `json:"t2_timeout"`
	MaxCandidates int    `json:"max_candidates"`
	NoT2          bool   `json:"no_t2"`
	MapOrder      string `json:"map_order"`
}

type JobResult struct {
	Harness    string         `json:"harness"`
	Stats      Stats          `json:"stats"`
	Work       [][]int64      `json:"work"`
	Covers     map[string]int `json:"covers"`
	Funcs      []string       `json:"funcs"`
	Candidates []Candidate    `json:"candidates"`
	Samples    []Sample       `json:"samples"`
	Unwinds    []string       `json:"unwinds"`
	Errors     []string       `json:"errors"`
	Fatal      string         `json:"fatal"`
}

type Machine struct {
	i   *interpreter
	pkg *ssa.Package
}

func NewMachine(pkg *ssa.Package) *Machine {
	i := &interpreter{
		prog:       pkg.Prog,
		globals:    make(map[*ssa.Global]*value),
		sizes:      &types.StdSizes{WordSize: 8, MaxAlign: 8},
		goroutines: 1,
	}
	runtimePkg := i.prog.ImportedPackage("runtime")
	i.runtimeErrorString = runtimePkg.Type("errorString").Object().Type()
	initReflect(i)
	theInterp = i
	return &Machine{i: i, pkg: pkg}
}

var theInterp *interpreter

func (m *Machine) resetGlobals() {
	i := m.i
	for g := range i.globals {
		delete(i.globals, g)
	}
	for _, p := range i.prog.AllPackages() {
		for _, mem := range p.Members {
			if v, ok := mem.(*ssa.Global); ok {
				cell := zero(mustDeref(v.Type()))
				i.globals[v] = &cell
			}
		}
	}
	resetEnv()
}

// runOnce executes the harness once under the current prefix.
func (m *Machine) runOnce(name string) (fatal string, completed bool) {
	x := X
	fn := m.pkg.Func(name)
	if fn == nil {
		return "no such harness: " + name, false
	}
	m.resetGlobals()
	defer func() {
		if r := recover(); r != nil {
			switch p := r.(type) {
			case pathAbort:
				if p.why != "violation" {
					x.Stats.Aborted++
				}
			case targetPanic:
				x.panicCandidate("panic: " + toString(p.v))
			case engineError:
				fatal = p.Error() + " @ " + whereAmI()
			case error: // runtime.Error raised inside the interpreter on behalf of the target
				x.panicCandidate("runtime error: " + p.Error())
			case string:
				x.panicCandidate("panic: " + p)
			default:
				fatal = fmt.Sprintf("unexpected panic %T %v @ %s", r, r, whereAmI())
			}
		}
	}()
	CallStack = CallStack[:0]
	call(m.i, nil, token.NoPos, m.pkg.Func("init"), nil)
	call(m.i, nil, token.NoPos, fn, nil)
	return "", true
}

// foreignPanic: the panic was raised while executing code that is neither comet's nor a
// harness's nor a dependency model's (standard-library internals reached without an
// intrinsic): an encoding gap, not a finding.
func foreignPanic() (string, bool) {
	w := lastPanicWhere
	if w == "" || w == "?" {
		return "", false
	}
	parts := strings.Split(w, " > ")
	inner := parts[len(parts)-1]
	if strings.Contains(inner, cometPath) || strings.Contains(inner, "RoaringBitmap") {
		return "", false
	}
	// closures / methods of comet invoked from library code (sort, heap) are named with comet's path; anything else is foreign
	return inner, true
}

func (x *Explorer) panicCandidate(msg string) {
	if inner, foreign := foreignPanic(); foreign {
		panic(engineError{"unmodelled-callee: panic inside " + inner + ": " + msg})
	}
	if x.Concrete {
		x.Observed = append(x.Observed, "PANIC "+msg)
		return
	}
	lbl := msg
	if i := strings.IndexByte(lbl, '\n'); i >= 0 {
		lbl = lbl[:i]
	}
	x.tags = append(x.tags, "where="+lastPanicWhere)
	x.report(nil, "no-panic: "+lbl, "panic")
}

// RunJob explores the subtree under job.Prefix.
func (m *Machine) RunJob(job Job) (res JobResult) {
	x := X
	x.Harness = job.Harness
	x.EIMode, x.EIRange = job.Opts.EI, job.Opts.EIRange
	if x.EIRange == 0 {
		x.EIRange = 15
	}
	x.MaxSteps, x.MaxEnum, x.T2Timeout, x.MaxCandidates, x.NoT2 = job.Opts.MaxSteps, job.Opts.MaxEnum, job.Opts.T2Timeout, job.Opts.MaxCandidates, job.Opts.NoT2
	if x.MaxSteps == 0 {
		x.MaxSteps = 5_000_000
	}
	if x.MaxEnum == 0 {
		x.MaxEnum = 64
	}
	if x.T2Timeout == 0 {
		x.T2Timeout = 150 // wall-clock cap per obligation; the unchanged tree's obligations close in < 40 s on idle cores, the margin is for a loaded machine
	}
	if x.MaxCandidates == 0 {
		x.MaxCandidates = 8
	}
	mapOrderReverse = job.Opts.MapOrder == "reverse"
	mapOrderBase = mapOrderReverse
	x.Stats = Stats{}
	x.Covers = map[string]int{}
	x.Funcs = map[string]bool{}
	x.Candidates, x.Samples, x.Unwinds, x.Errors = nil, nil, nil, nil
	x.Work = [][]int64{job.Prefix}
	if x.Z != nil && (x.EIMode != lastEI || job.Harness != lastHarness) {
		x.Z.stop()
		x.Z = nil
		resetTerms()
	}
	lastEI = x.EIMode
	lastHarness = job.Harness
	t0 := time.Now()
	res.Harness = job.Harness
	modelSamples := 0
	func() {
		defer func() {
			if r := recover(); r != nil {
				if e, ok := r.(engineError); ok {
					res.Fatal = e.Error()
					return
				}
				panic(r)
			}
		}()
		for len(x.Work) > 0 {
			if x.Stats.Paths >= job.Budget || (job.Seconds > 0 && time.Since(t0).Seconds() > job.Seconds) {
				break
			}
			prefix := x.Work[len(x.Work)-1]
			x.Work = x.Work[:len(x.Work)-1]
			x.beginPath(prefix)
			x.Stats.Paths++
			f, completed := m.runOnce(job.Harness)
			if f != "" {
				res.Fatal = f
				return
			}
			x.Stats.Steps += x.pathSteps
			if completed && modelSamples < 1 && (len(x.pc) > 0 || len(x.chooses) > 0) {
				// translator validation: a model of a complete path, replayed natively by the master
				modelSamples++
				ins := inputsOf(x.pcRoots(nil))
				names := make([]string, len(ins))
				for i, in := range ins {
					names[i] = in.name
				}
				if r, mm := x.Z.checkModel("true", names); r == "sat" {
					vals, kinds, _ := x.modelOf(ins, mm)
					x.Samples = append(x.Samples, Sample{Harness: x.Harness, Label: "path-model", Tier: "T1-model", PCSize: len(x.pc),
						Chooses: append([]NamedChoice(nil), x.chooses...), Inputs: vals, Kinds: kinds})
				}
			}
			if len(x.Candidates) >= x.MaxCandidates {
				break
			}
		}
	}()
	res.Stats = x.Stats
	res.Work = x.Work
	res.Covers = x.Covers
	for f := range x.Funcs {
		res.Funcs = append(res.Funcs, f)
	}
	sort.Strings(res.Funcs)
	res.Candidates, res.Samples, res.Unwinds, res.Errors = x.Candidates, x.Samples, x.Unwinds, x.Errors
	return
}

var NoIfConversion = os.Getenv("VERIF_NO_IFCONV") != ""
var lastEI bool
var lastHarness string

// RunConcrete executes the harness once with fixed inputs / choices and
// returns what it observed (assert failures, panics, vObserve lines).
func (m *Machine) RunConcrete(name string, vals map[string]uint64, choices []NamedChoice) (obs []string, fatal string) {
	x := X
	x.Concrete = true
	defer func() { x.Concrete = false }()
	x.Harness = name
	x.Values, x.Choices = vals, choices
	x.Covers = map[string]int{}
	x.Funcs = map[string]bool{}
	x.beginPath(nil)
	fatal, _ = m.runOnce(name)
	return x.Observed, fatal
}

// Serve reads jobs (JSON lines) from r and writes results to w.
func (m *Machine) Serve(r io.Reader, w io.Writer, dec func([]byte, interface{}) error, enc func(interface{}) []byte) {
	br := bufio.NewReaderSize(r, 1<<20)
	for {
		line, err := br.ReadBytes('\n')
		if len(line) > 0 {
			var job Job
			if e := dec(line, &job); e != nil {
				fmt.Fprintln(os.Stderr, "bad job:", e)
				return
			}
			res := m.RunJob(job)
			w.Write(append(enc(res), '\n'))
		}
		if err != nil {
			return
		}
	}
}
