package interp

// EI — exact-integer float domain.  Float inputs declared integer-valued in
// [-R, R] are encoded as mathematical integers; + and - stay exact while the
// interval certificate |t| < 2^24 holds; a product t*t is kept as the opaque
// object Sq(t); comparisons of squares are rewritten to comparisons of |t|
// (exact for integers and linear).  Anything else is an engine error: the
// harness left the domain it declared.

import (
	"fmt"
	"go/token"
	"go/types"
)

const eiMaxBound = 1 << 22

func eiOf(v value) (string, int64, *Sym, bool) {
	switch x := v.(type) {
	case *Sym:
		if x.ei && x.sq == nil {
			return x.name, x.bound, x, true
		}
	case float32:
		if float32(int64(x)) == x && x > -1e6 && x < 1e6 {
			return eiLit(int64(x))
		}
	case float64:
		if float64(int64(x)) == x && x > -1e6 && x < 1e6 {
			return eiLit(int64(x))
		}
	}
	return "", 0, nil, false
}

func eiLit(n int64) (string, int64, *Sym, bool) {
	if n < 0 {
		return fmt.Sprintf("(- %d)", -n), -n, nil, true
	}
	return fmt.Sprintf("%d", n), n, nil, true
}

func mkEI(k types.BasicKind, op, expr string, bound int64, args ...value) *Sym {
	key := "EI|" + expr
	if s := TT.byKey[key]; s != nil {
		touch(s)
		if s.kind != k {
			return eiRetag(s, k).(*Sym)
		}
		return s
	}
	if bound >= eiMaxBound {
		panic(engineError{"EI certificate lost: bound too large"})
	}
	TT.n++
	s := &Sym{id: TT.n, kind: k, op: op, args: args, name: fmt.Sprintf("t%d", TT.n), expr: expr, ei: true, bound: bound}
	TT.byKey[key] = s
	TT.pending = append(TT.pending, s)
	touch(s)
	return s
}

// eiRetag changes the float kind of an EI term (float32 <-> float64 is exact
// for small integers).
func eiRetag(x *Sym, k types.BasicKind) value {
	if x.kind == k {
		return x
	}
	key := fmt.Sprintf("EIK|%d|%s", k, x.name)
	if s := TT.byKey[key]; s != nil {
		return s
	}
	c := *x
	c.kind = k
	TT.byKey[key] = &c
	return &c
}

func eiIsSq(v value) (*Sym, bool) {
	if s, ok := v.(*Sym); ok && s.ei && s.sq != nil {
		return s.sq, true
	}
	return nil, false
}

func eiConst(v value) (int64, bool) {
	switch x := v.(type) {
	case float32:
		if float32(int64(x)) == x && x > -1e6 && x < 1e6 {
			return int64(x), true
		}
	case float64:
		if float64(int64(x)) == x && x > -1e6 && x < 1e6 {
			return int64(x), true
		}
	}
	return 0, false
}

func eiFlip(op token.Token) token.Token {
	switch op {
	case token.LSS:
		return token.GTR
	case token.LEQ:
		return token.GEQ
	case token.GTR:
		return token.LSS
	case token.GEQ:
		return token.LEQ
	}
	return op
}

// eiSqVsConst decides Sq(t) op c for an integer-valued t and an integer constant c as a linear
// comparison of |t| (abs) with floor(sqrt(c)).
func eiSqVsConst(op token.Token, abs string, c int64, _ func(a, b string) value, mkf func(types.BasicKind, string, string, ...value) *Sym) (value, bool) {
	switch op {
	case token.LSS, token.LEQ, token.GTR, token.GEQ, token.EQL, token.NEQ:
	default:
		return nil, false
	}
	if c < 0 {
		return op == token.GTR || op == token.GEQ || op == token.NEQ, true
	}
	r := int64(0)
	for (r+1)*(r+1) <= c {
		r++
	}
	perfect := r*r == c
	lt := func(a, b string) value { return mkf(types.Bool, "ilt", fmt.Sprintf("(< %s %s)", a, b)) }
	le := func(a, b string) value { return mkf(types.Bool, "ile", fmt.Sprintf("(<= %s %s)", a, b)) }
	rs, r1 := fmt.Sprintf("%d", r), fmt.Sprintf("%d", r+1)
	switch op {
	case token.LSS: // t^2 < c
		if perfect {
			return lt(abs, rs), true
		}
		return lt(abs, r1), true
	case token.LEQ: // t^2 <= c  <=> |t| <= r
		return le(abs, rs), true
	case token.GTR: // t^2 > c  <=> |t| > r
		return lt(rs, abs), true
	case token.GEQ: // t^2 >= c
		if perfect {
			return le(rs, abs), true
		}
		return le(r1, abs), true
	case token.EQL:
		if !perfect {
			return false, true
		}
		return mkf(types.Bool, "ieq", fmt.Sprintf("(= %s %s)", abs, rs)), true
	case token.NEQ:
		if !perfect {
			return true, true
		}
		return symNot(mkf(types.Bool, "ieq", fmt.Sprintf("(= %s %s)", abs, rs))), true
	}
	return nil, false
}

func eiAbsText(t string) string { return fmt.Sprintf("(ite (< %s 0) (- %s) %s)", t, t, t) }

func eiBinop(op token.Token, k types.BasicKind, x, y value) (value, bool) {
	sx, okx := x.(*Sym)
	sy, oky := y.(*Sym)
	if !(okx && sx.ei) && !(oky && sy.ei) {
		return nil, false
	}
	cmp := func(a, b string) value {
		switch op {
		case token.LSS:
			return mk(types.Bool, "ilt", fmt.Sprintf("(< %s %s)", a, b))
		case token.LEQ:
			return mk(types.Bool, "ile", fmt.Sprintf("(<= %s %s)", a, b))
		case token.GTR:
			return mk(types.Bool, "ilt", fmt.Sprintf("(< %s %s)", b, a))
		case token.GEQ:
			return mk(types.Bool, "ile", fmt.Sprintf("(<= %s %s)", b, a))
		case token.EQL:
			if a == b {
				return true
			}
			return mk(types.Bool, "ieq", fmt.Sprintf("(= %s %s)", a, b))
		case token.NEQ:
			if a == b {
				return false
			}
			return symNot(mk(types.Bool, "ieq", fmt.Sprintf("(= %s %s)", a, b)))
		}
		panic(engineError{"EI: unsupported comparison " + op.String()})
	}
	depArgs := func(vs ...value) []value {
		var out []value
		for _, v := range vs {
			if s, ok := v.(*Sym); ok {
				if s.sq != nil {
					out = append(out, s.sq)
				} else {
					out = append(out, s)
				}
			}
		}
		return out
	}
	withArgs := func(r value, vs ...value) value {
		if s, ok := r.(*Sym); ok && len(s.args) == 0 {
			s.args = depArgs(vs...)
		}
		if s, ok := r.(*Sym); ok && s.op == "not" {
			if in := s.args[0].(*Sym); len(in.args) == 0 {
				in.args = depArgs(vs...)
			}
		}
		return r
	}
	tx, sqx := eiIsSq(x)
	ty, sqy := eiIsSq(y)
	if sqx || sqy {
		switch {
		case sqx && sqy:
			switch op {
			case token.LSS, token.LEQ, token.GTR, token.GEQ, token.EQL, token.NEQ:
				return withArgs(cmp(eiAbsText(tx.name), eiAbsText(ty.name)), x, y), true
			}
		case sqx && op == token.ADD && isZeroF(y):
			return x, true
		case sqy && op == token.ADD && isZeroF(x):
			return y, true
		case sqx:
			// square against an integer constant c: t*t ? c  <=>  |t| ?' isqrt-bound (exact for integer t)
			if c, ok := eiConst(y); ok {
				if r, ok := eiSqVsConst(op, eiAbsText(tx.name), c, cmp, mk); ok {
					return withArgs(r, x), true
				}
			}
		case sqy:
			if c, ok := eiConst(x); ok {
				if r, ok := eiSqVsConst(eiFlip(op), eiAbsText(ty.name), c, nil, mk); ok {
					return withArgs(r, y), true
				}
			}
		}
		panic(engineError{"EI: square meets unsupported operation " + op.String()})
	}
	ea, ba, _, oka := eiOf(x)
	eb, bb, _, okb := eiOf(y)
	if !oka || !okb {
		panic(engineError{"EI value meets non-EI operand in " + op.String()})
	}
	switch op {
	case token.ADD:
		return mkEI(k, "iadd", fmt.Sprintf("(+ %s %s)", ea, eb), ba+bb, depArgs(x, y)...), true
	case token.SUB:
		return mkEI(k, "isub", fmt.Sprintf("(- %s %s)", ea, eb), ba+bb, depArgs(x, y)...), true
	case token.MUL:
		if ea == eb {
			base, ok := x.(*Sym)
			if !ok {
				panic(engineError{"EI: square of a constant"})
			}
			key := fmt.Sprintf("EISQ|%d|%s", k, ea)
			if q := TT.byKey[key]; q != nil {
				return q, true
			}
			q := &Sym{kind: k, name: "sq(" + ea + ")", op: "sq", ei: true, sq: base, bound: ba * bb, args: []value{base}}
			TT.byKey[key] = q
			return q, true
		}
		panic(engineError{"EI: product of two different terms"})
	case token.LSS, token.LEQ, token.GTR, token.GEQ, token.EQL, token.NEQ:
		return withArgs(cmp(ea, eb), x, y), true
	}
	panic(engineError{"EI: unsupported operation " + op.String()})
}

func eiNeg(x *Sym) value {
	if x.sq != nil {
		panic(engineError{"EI: negated square"})
	}
	return mkEI(x.kind, "ineg", fmt.Sprintf("(- %s)", x.name), x.bound, x)
}

func eiAbs(x *Sym) value {
	if x.sq != nil {
		return x
	}
	return mkEI(x.kind, "iabs", eiAbsText(x.name), x.bound, x)
}

// eiSqrt: sqrt(Sq(t)) = |t| exactly (perfect square).
func eiSqrt(x *Sym) value {
	if x.sq == nil {
		panic(engineError{"EI: sqrt of a non-square"})
	}
	return mkEI(x.kind, "iabs", eiAbsText(x.sq.name), x.sq.bound, x.sq)
}
