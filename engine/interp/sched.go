package interp

// Cooperative thread scheduler: every interpreted goroutine is a real Go
// goroutine, but exactly one holds the baton.  Context switches happen only
// at synchronisation operations.  Default policy: the current thread runs
// until it blocks or finishes, then a runnable thread is chosen (a forked
// choice when there is more than one).  With a pre-emption budget
// (vPreempt) every sync operation is additionally a forked switch point.

import (
	"fmt"
	"go/types"

	"golang.org/x/tools/go/ssa"
)

type threadKill struct{}

type thread struct {
	id      int
	name    string
	resume  chan bool // true = run, false = die
	done    bool
	ready   func() bool // nil: runnable; else runnable when it returns true
	started bool
	held    map[*value]int // locks held (for lockset / self-deadlock diagnostics)
	stack   []string       // call stack of this thread (diagnostics)
}

type scheduler struct {
	threads  []*thread
	cur      *thread
	pending  interface{} // engine-level panic raised in a non-main thread
	preempt  int         // remaining pre-emption budget
	locks    map[*value]*lockState
	wgs      map[*value]*int
	deadlock bool
	yields   int
	forkPick bool
}

type lockState struct {
	writer  *thread
	readers map[*thread]int
	waitingWriters int // sync.RWMutex: a blocked Lock excludes new readers
}

var S *scheduler

func resetSched() {
	if S != nil {
		S.killAll()
	}
	main := &thread{id: 0, name: "main", resume: make(chan bool), started: true, held: map[*value]int{}}
	S = &scheduler{threads: []*thread{main}, cur: main, locks: map[*value]*lockState{}, wgs: map[*value]*int{}}
}

func (s *scheduler) killAll() {
	for _, t := range s.threads {
		if t.id != 0 && !t.done {
			t.done = true
			if t.started {
				t.resume <- false
			}
		}
	}
}

func (t *thread) runnable() bool {
	if t.done {
		return false
	}
	return t.ready == nil || t.ready()
}

// schedGo registers a new thread; it starts running when the scheduler picks it.
func schedGo(fr *frame, instr *ssa.Go, fn value, args []value) {
	s := S
	t := &thread{id: len(s.threads), resume: make(chan bool), held: map[*value]int{}}
	switch f := fn.(type) {
	case *ssa.Function:
		t.name = f.Name()
	case *closure:
		t.name = f.Fn.Name()
	}
	s.threads = append(s.threads, t)
	i := fr.i
	t.started = true
	go func() {
		if !<-t.resume {
			return
		}
		defer func() {
			r := recover()
			t.done = true
			if r != nil {
				if _, ok := r.(threadKill); ok {
					return
				}
				// any panic in a background thread ends the path in the main thread
				s.pending = r
				s.threads[0].resume <- true
				return
			}
			// thread finished normally: hand the baton on
			s.handOff(t)
		}()
		call(i, nil, instr.Pos(), fn, args)
	}()
}

// handOff is called by a finished thread: pick someone else to run.
func (s *scheduler) handOff(from *thread) {
	next := s.pick(from)
	if next == nil {
		// nobody can run: deadlock (main must be blocked, otherwise it would be runnable)
		s.pending = pathDeadlock{}
		s.threads[0].resume <- true
		return
	}
	s.cur = next
	next.resume <- true
}

type pathDeadlock struct{}

// pick chooses the next runnable thread other than 'not' (forked choice when several).
func (s *scheduler) pick(not *thread) *thread {
	var cands []*thread
	for _, t := range s.threads {
		if t != not && t.runnable() {
			cands = append(cands, t)
		}
	}
	if len(cands) == 0 {
		return nil
	}
	if len(cands) == 1 || !s.forkPick {
		return cands[0] // default schedule: lowest thread id first (a legal schedule); vSchedFork(true) explores every choice
	}
	return cands[X.choose("sched", len(cands))]
}

// block suspends the current thread until ready() holds.
func (s *scheduler) block(ready func() bool, what string) {
	cur := s.cur
	for !ready() {
		cur.ready = ready
		next := s.pick(cur)
		if next == nil {
			cur.ready = nil
			X.tags = append(X.tags, "deadlock="+what)
			panic(targetPanic{"fatal error: all goroutines are asleep - deadlock! (" + what + ")"})
		}
		s.switchTo(next)
		cur.ready = nil
	}
}

// switchTo hands the baton to next and waits until this thread is resumed.
func (s *scheduler) switchTo(next *thread) {
	cur := s.cur
	s.cur = next
	next.resume <- true
	if !<-cur.resume {
		panic(threadKill{})
	}
	s.cur = cur
	if cur.id == 0 && s.pending != nil {
		p := s.pending
		s.pending = nil
		if _, ok := p.(pathDeadlock); ok {
			X.tags = append(X.tags, "deadlock=background")
			panic(targetPanic{"fatal error: all goroutines are asleep - deadlock!"})
		}
		panic(p)
	}
}

// schedYieldAll lets every other runnable thread run until all of them are
// blocked (or finished); then the caller continues.
func schedYieldAll() {
	s := S
	me := s.cur
	s.yields++
	s.block(func() bool {
		for _, t := range s.threads {
			if t != me && t.runnable() {
				return false
			}
		}
		return true
	}, "yield")
}

// schedPoint is called at every synchronisation operation: with a pre-emption
// budget it is a forked choice to switch to another runnable thread.
func schedPoint(fr *frame, kind string) {
	s := S
	if s == nil || s.preempt <= 0 || len(s.threads) < 2 {
		return
	}
	var cands []*thread
	for _, t := range s.threads {
		if t != s.cur && t.runnable() {
			cands = append(cands, t)
		}
	}
	if len(cands) == 0 {
		return
	}
	c := X.choose("preempt", len(cands)+1)
	if c == 0 {
		return
	}
	s.preempt--
	s.switchTo(cands[c-1])
}

// ---------- channels ----------

type vchan struct {
	buf    []value
	cap    int
	closed bool
	sendq  []*sendItem
	elem   types.Type
}

type sendItem struct {
	v     value
	taken bool
}

func newChan(n int) *vchan { return &vchan{cap: n} }

func (c *vchan) canRecv() bool {
	return c != nil && (len(c.buf) > 0 || len(c.sendq) > 0 || c.closed)
}

func (c *vchan) canSend() bool {
	if c == nil {
		return false
	}
	if c.closed {
		return true // will panic
	}
	return len(c.buf) < c.cap
}

func chanSend(fr *frame, ch value, v value) {
	c, _ := ch.(*vchan)
	schedPoint(fr, "send")
	if c == nil {
		S.block(func() bool { return false }, "send on nil channel")
	}
	if c.closed {
		panic(targetPanic{"send on closed channel"})
	}
	if c.cap == 0 {
		it := &sendItem{v: v}
		c.sendq = append(c.sendq, it)
		S.block(func() bool { return it.taken || c.closed }, "chan send")
		if !it.taken {
			panic(targetPanic{"send on closed channel"})
		}
		return
	}
	S.block(func() bool { return len(c.buf) < c.cap || c.closed }, "chan send")
	if c.closed {
		panic(targetPanic{"send on closed channel"})
	}
	c.buf = append(c.buf, v)
}

func (c *vchan) take() (value, bool) {
	if len(c.buf) > 0 {
		v := c.buf[0]
		c.buf = c.buf[1:]
		return v, true
	}
	if len(c.sendq) > 0 {
		it := c.sendq[0]
		c.sendq = c.sendq[1:]
		it.taken = true
		return it.v, true
	}
	return nil, false
}

func chanRecv(ch value, elem types.Type, commaOk bool) value {
	c, _ := ch.(*vchan)
	schedPoint(nil, "recv")
	if c == nil {
		S.block(func() bool { return false }, "receive on nil channel")
	}
	S.block(c.canRecv, "chan receive")
	v, ok := c.take()
	if !ok {
		v = zero(elem)
	}
	if commaOk {
		return tuple{v, ok}
	}
	return v
}

func chanClose(fr *frame, ch value) {
	c, _ := ch.(*vchan)
	if c == nil {
		panic(targetPanic{"close of nil channel"})
	}
	if c.closed {
		panic(targetPanic{"close of closed channel"})
	}
	c.closed = true
}

func schedSelect(fr *frame, instr *ssa.Select) value {
	schedPoint(fr, "select")
	type scase struct {
		c    *vchan
		send bool
		v    value
	}
	var cases []scase
	for _, st := range instr.States {
		c, _ := fr.get(st.Chan).(*vchan)
		sc := scase{c: c, send: st.Dir == types.SendOnly}
		if sc.send {
			sc.v = fr.get(st.Send)
		}
		cases = append(cases, sc)
	}
	readyIdx := func() []int {
		var r []int
		for i, sc := range cases {
			if sc.c == nil {
				continue
			}
			if sc.send && (len(sc.c.buf) < sc.c.cap || sc.c.closed) {
				r = append(r, i)
			} else if !sc.send && sc.c.canRecv() {
				r = append(r, i)
			}
		}
		return r
	}
	rdy := readyIdx()
	chosen := -1
	if len(rdy) == 0 {
		if instr.Blocking {
			S.block(func() bool { return len(readyIdx()) > 0 }, "select")
			rdy = readyIdx()
		}
	}
	if len(rdy) == 1 {
		chosen = rdy[0]
	} else if len(rdy) > 1 {
		chosen = rdy[X.choose("select", len(rdy))]
	}
	recvOk := false
	var recv value
	if chosen >= 0 {
		sc := cases[chosen]
		if sc.send {
			if sc.c.closed {
				panic(targetPanic{"send on closed channel"})
			}
			sc.c.buf = append(sc.c.buf, sc.v)
		} else {
			recv, recvOk = sc.c.take()
		}
	}
	r := tuple{chosen, recvOk}
	for i, st := range instr.States {
		if st.Dir == types.RecvOnly {
			var v value
			if i == chosen && recvOk {
				v = recv
			} else {
				v = zero(st.Chan.Type().Underlying().(*types.Chan).Elem())
			}
			r = append(r, v)
		}
	}
	return r
}

// ---------- locks ----------

func lockOf(p *value) *lockState {
	l := S.locks[p]
	if l == nil {
		l = &lockState{readers: map[*thread]int{}}
		S.locks[p] = l
	}
	return l
}

func extLock(fr *frame, a []value) value {
	p := a[0].(*value)
	schedPoint(fr, "lock")
	l := lockOf(p)
	cur := S.cur
	l.waitingWriters++
	S.block(func() bool { return l.writer == nil && len(l.readers) == 0 }, fmt.Sprintf("Lock in %s", whereAmI()))
	l.waitingWriters--
	l.writer = cur
	cur.held[p]++
	return nil
}

func extTryLock(fr *frame, a []value) value {
	p := a[0].(*value)
	l := lockOf(p)
	if l.writer == nil && len(l.readers) == 0 {
		l.writer = S.cur
		S.cur.held[p]++
		return true
	}
	return false
}

func extUnlock(fr *frame, a []value) value {
	p := a[0].(*value)
	l := lockOf(p)
	if l.writer == nil {
		panic(targetPanic{"fatal error: sync: unlock of unlocked mutex"})
	}
	l.writer = nil
	delete(S.cur.held, p)
	schedPoint(fr, "unlock")
	return nil
}

func extRLock(fr *frame, a []value) value {
	p := a[0].(*value)
	schedPoint(fr, "rlock")
	l := lockOf(p)
	cur := S.cur
	S.block(func() bool { return l.writer == nil && l.waitingWriters == 0 }, fmt.Sprintf("RLock in %s", whereAmI()))
	l.readers[cur]++
	return nil
}

func extRUnlock(fr *frame, a []value) value {
	p := a[0].(*value)
	l := lockOf(p)
	cur := S.cur
	if l.readers[cur] == 0 {
		// released by another thread than the one that acquired it: legal for RWMutex, find any
		for t := range l.readers {
			cur = t
			break
		}
		if l.readers[cur] == 0 {
			panic(targetPanic{"fatal error: sync: RUnlock of unlocked RWMutex"})
		}
	}
	l.readers[cur]--
	if l.readers[cur] == 0 {
		delete(l.readers, cur)
	}
	schedPoint(fr, "runlock")
	return nil
}

// ---------- WaitGroup ----------

func wgOf(p *value) *int {
	c := S.wgs[p]
	if c == nil {
		c = new(int)
		S.wgs[p] = c
	}
	return c
}

func extWgAdd(fr *frame, a []value) value {
	c := wgOf(a[0].(*value))
	*c += asInt(a[1])
	if *c < 0 {
		panic(targetPanic{"sync: negative WaitGroup counter"})
	}
	return nil
}

func extWgDone(fr *frame, a []value) value {
	c := wgOf(a[0].(*value))
	*c--
	if *c < 0 {
		panic(targetPanic{"sync: negative WaitGroup counter"})
	}
	return nil
}

func extWgWait(fr *frame, a []value) value {
	c := wgOf(a[0].(*value))
	schedPoint(fr, "wg.wait")
	S.block(func() bool { return *c == 0 }, "WaitGroup.Wait")
	return nil
}

// ---------- ticker ----------

func extNewTicker(fr *frame, a []value) value {
	// *time.Ticker{C <-chan Time, r runtimeTimer...}: a channel that never fires
	T := fr.fn.Signature.Results().At(0).Type()
	st := zero(mustDeref(T)).(structure)
	st[0] = newChan(1)
	var cell value = st
	return &cell
}

func init() {
	for k, v := range map[string]externalFn{
		"(*sync.WaitGroup).Add":  extWgAdd,
		"(*sync.WaitGroup).Done": extWgDone,
		"(*sync.WaitGroup).Wait": extWgWait,
		"time.NewTicker":         extNewTicker,
		"(*time.Ticker).Stop":    extNop,
		cometPath + ".vYield":    func(fr *frame, a []value) value { schedYieldAll(); return nil },
		cometPath + ".vPreempt":  func(fr *frame, a []value) value { S.preempt = asInt(a[0]); return nil },
		cometPath + ".vLockset": func(fr *frame, a []value) value { LS.on = a[0].(bool); return nil },
		cometPath + ".vSchedFork": func(fr *frame, a []value) value { S.forkPick = a[0].(bool); return nil },
		cometPath + ".vThreads":  func(fr *frame, a []value) value { return len(S.threads) },
	} {
		externals[k] = v
	}
}
