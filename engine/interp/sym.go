package interp

// Symbolic scalar layer of gosymex: a hash-consed term DAG whose leaves are
// named inputs and Go constants.  Every term can be emitted as SMT-LIB2 text;
// the text is the same for the two solver tiers, only the prelude differs:
// at T1 float arithmetic is a family of uninterpreted functions, at T2 the
// same function symbols are *defined* as IEEE operations (see prelude()).

import (
	"fmt"
	"go/token"
	"go/types"
	"math"
	"sort"
	"strings"
)

type Sym struct {
	id    int
	kind  types.BasicKind // Go basic kind (Bool, Int.., Float32, Float64)
	op    string
	args  []value // *Sym or concrete Go scalars
	name  string  // SMT name
	expr  string  // SMT body (empty for inputs)
	axiom string  // asserted once per path when the term is first touched
	input bool

	// exact-integer float domain (EI)
	ei    bool
	sq    *Sym  // if non-nil: value is the square of EI term sq (never materialised)
	bound int64 // |value| <= bound when ei
}

func (s *Sym) String() string { return s.name }

func isSym(v value) bool { _, ok := v.(*Sym); return ok }

// ---------- term table (per worker process) ----------

type termTable struct {
	byKey   map[string]*Sym
	pending []*Sym // created but not yet sent to the T1 solver
	n       int
}

var TT = &termTable{byKey: map[string]*Sym{}}

func resetTerms() {
	TT = &termTable{byKey: map[string]*Sym{}}
}

func sortOf(k types.BasicKind) string {
	switch k {
	case types.Bool:
		return "Bool"
	case types.Float32:
		return "F32"
	case types.Float64:
		return "F64"
	case types.Int8, types.Uint8:
		return "(_ BitVec 8)"
	case types.Int16, types.Uint16:
		return "(_ BitVec 16)"
	case types.Int32, types.Uint32:
		return "(_ BitVec 32)"
	case types.Int, types.Int64, types.Uint, types.Uint64, types.Uintptr:
		return "(_ BitVec 64)"
	}
	panic(fmt.Sprint("sortOf ", k))
}

func widthOf(k types.BasicKind) int {
	switch k {
	case types.Int8, types.Uint8:
		return 8
	case types.Int16, types.Uint16:
		return 16
	case types.Int32, types.Uint32:
		return 32
	}
	return 64
}

func isSigned(k types.BasicKind) bool {
	switch k {
	case types.Int, types.Int8, types.Int16, types.Int32, types.Int64:
		return true
	}
	return false
}

func isFloatK(k types.BasicKind) bool { return k == types.Float32 || k == types.Float64 }

func kindOfValue(v value) types.BasicKind {
	switch x := v.(type) {
	case bool:
		return types.Bool
	case int:
		return types.Int
	case int8:
		return types.Int8
	case int16:
		return types.Int16
	case int32:
		return types.Int32
	case int64:
		return types.Int64
	case uint:
		return types.Uint
	case uint8:
		return types.Uint8
	case uint16:
		return types.Uint16
	case uint32:
		return types.Uint32
	case uint64:
		return types.Uint64
	case uintptr:
		return types.Uintptr
	case float32:
		return types.Float32
	case float64:
		return types.Float64
	case *Sym:
		return x.kind
	}
	panic(fmt.Sprintf("kindOfValue %T", v))
}

func kindOfType(t types.Type) types.BasicKind {
	b, ok := t.Underlying().(*types.Basic)
	if !ok {
		panic("kindOfType: not basic: " + t.String())
	}
	k := b.Kind()
	switch k {
	case types.UntypedBool:
		return types.Bool
	case types.UntypedInt:
		return types.Int
	case types.UntypedRune:
		return types.Int32
	case types.UntypedFloat:
		return types.Float64
	}
	return k
}

func bitsOfConcrete(v value) uint64 {
	switch x := v.(type) {
	case int:
		return uint64(x)
	case int8:
		return uint64(uint8(x))
	case int16:
		return uint64(uint16(x))
	case int32:
		return uint64(uint32(x))
	case int64:
		return uint64(x)
	case uint:
		return uint64(x)
	case uint8:
		return uint64(x)
	case uint16:
		return uint64(x)
	case uint32:
		return uint64(x)
	case uint64:
		return x
	case uintptr:
		return uint64(x)
	}
	panic(fmt.Sprintf("bitsOfConcrete %T", v))
}

// concreteOfBits builds the Go value of kind k with the given bit pattern.
func concreteOfBits(k types.BasicKind, u uint64) value {
	switch k {
	case types.Bool:
		return u != 0
	case types.Int:
		return int(u)
	case types.Int8:
		return int8(u)
	case types.Int16:
		return int16(u)
	case types.Int32:
		return int32(u)
	case types.Int64:
		return int64(u)
	case types.Uint:
		return uint(u)
	case types.Uint8:
		return uint8(u)
	case types.Uint16:
		return uint16(u)
	case types.Uint32:
		return uint32(u)
	case types.Uint64:
		return u
	case types.Uintptr:
		return uintptr(u)
	case types.Float32:
		return math.Float32frombits(uint32(u))
	case types.Float64:
		return math.Float64frombits(u)
	}
	panic(fmt.Sprint("concreteOfBits ", k))
}

func f32lit(x float32) string {
	b := math.Float32bits(x)
	return fmt.Sprintf("(fp #b%01b #b%08b #b%023b)", b>>31, (b>>23)&0xff, b&0x7fffff)
}
func f64lit(x float64) string {
	b := math.Float64bits(x)
	return fmt.Sprintf("(fp #b%01b #b%011b #b%052b)", b>>63, (b>>52)&0x7ff, b&0xfffffffffffff)
}

// term returns the SMT text of a value (symbolic or concrete scalar).
func term(v value) string {
	switch x := v.(type) {
	case *Sym:
		if x.sq != nil {
			panic(engineError{"EI square used outside a comparison"})
		}
		return x.name
	case bool:
		if x {
			return "true"
		}
		return "false"
	case float32:
		return f32lit(x)
	case float64:
		return f64lit(x)
	}
	k := kindOfValue(v)
	w := widthOf(k)
	u := bitsOfConcrete(v)
	if w < 64 {
		u &= (1 << uint(w)) - 1
	}
	return fmt.Sprintf("(_ bv%d %d)", u, w)
}

func argKey(v value) string {
	if s, ok := v.(*Sym); ok {
		return s.name
	}
	return term(v)
}

// engineError aborts the whole run (not a path): the encoder met something it
// does not handle.  It is never turned into a pass.
type engineError struct{ msg string }

func (e engineError) Error() string { return "gosymex: " + e.msg }

func fpfx(k types.BasicKind) string {
	if k == types.Float32 {
		return "f32"
	}
	return "f64"
}

// mk builds (or finds) the term op(args) of kind k with SMT body expr.
func mk(k types.BasicKind, op string, expr string, args ...value) *Sym {
	key := sortOf(k) + "|" + expr
	if s := TT.byKey[key]; s != nil {
		touch(s)
		return s
	}
	TT.n++
	s := &Sym{id: TT.n, kind: k, op: op, args: args, name: fmt.Sprintf("t%d", TT.n), expr: expr}
	TT.byKey[key] = s
	TT.pending = append(TT.pending, s)
	touch(s)
	return s
}

func app(k types.BasicKind, op string, fn string, args ...value) *Sym {
	var sb strings.Builder
	sb.WriteString("(")
	sb.WriteString(fn)
	for _, a := range args {
		sb.WriteString(" ")
		sb.WriteString(term(a))
	}
	sb.WriteString(")")
	return mk(k, op, sb.String(), args...)
}

// NewInput returns the input variable of kind k named nm (one per name).
func NewInput(k types.BasicKind, nm string) *Sym {
	key := "input|" + nm
	if s := TT.byKey[key]; s != nil {
		if s.kind != k && !(s.ei) {
			panic(engineError{"input " + nm + " used at two kinds"})
		}
		touch(s)
		return s
	}
	TT.n++
	s := &Sym{id: TT.n, kind: k, op: "input", name: "in_" + nm, input: true}
	if X.EIMode && k == types.Float32 {
		s.ei = true
		s.bound = X.EIRange
		s.axiom = fmt.Sprintf("(and (<= (- %d) %s) (<= %s %d))", X.EIRange, s.name, s.name, X.EIRange)
	}
	TT.byKey[key] = s
	TT.pending = append(TT.pending, s)
	touch(s)
	return s
}

func (s *Sym) decl() string {
	if s.input {
		if s.ei {
			return fmt.Sprintf("(declare-const %s Int)", s.name)
		}
		return fmt.Sprintf("(declare-const %s %s)", s.name, sortOf(s.kind))
	}
	if s.ei {
		return fmt.Sprintf("(define-fun %s () Int %s)", s.name, s.expr)
	}
	return fmt.Sprintf("(define-fun %s () %s %s)", s.name, sortOf(s.kind), s.expr)
}

// cone returns the definitions needed by the given roots, in dependency order.
func cone(roots []*Sym) []*Sym {
	seen := map[string]bool{}
	var out []*Sym
	var walk func(s *Sym)
	walk = func(s *Sym) {
		if seen[s.name] {
			return
		}
		seen[s.name] = true
		for _, a := range s.args {
			if as, ok := a.(*Sym); ok {
				walk(as)
			}
		}
		out = append(out, s)
	}
	for _, r := range roots {
		walk(r)
	}
	sort.SliceStable(out, func(i, j int) bool { return out[i].id < out[j].id })
	return out
}

// ---------- boolean helpers ----------

func symNot(x value) value {
	switch c := x.(type) {
	case bool:
		return !c
	case *Sym:
		if c.op == "not" {
			return c.args[0]
		}
		return mk(types.Bool, "not", "(not "+c.name+")", c)
	}
	panic("symNot")
}

func symAnd(x, y value) value {
	if b, ok := x.(bool); ok {
		if !b {
			return false
		}
		return y
	}
	if b, ok := y.(bool); ok {
		if !b {
			return false
		}
		return x
	}
	if x == y {
		return x
	}
	return app(types.Bool, "and", "and", x, y)
}

func symOr(x, y value) value {
	if b, ok := x.(bool); ok {
		if b {
			return true
		}
		return y
	}
	if b, ok := y.(bool); ok {
		if b {
			return true
		}
		return x
	}
	if x == y {
		return x
	}
	return app(types.Bool, "or", "or", x, y)
}

func symIte(k types.BasicKind, c, a, b value) value {
	if cb, ok := c.(bool); ok {
		if cb {
			return a
		}
		return b
	}
	if !isSym(a) && !isSym(b) && a == b {
		return a
	}
	if a == b {
		return a
	}
	return app(k, "ite", "ite", c, a, b)
}

// ---------- binary operators ----------

func isZeroF(v value) bool {
	switch c := v.(type) {
	case float32:
		return c == 0 && !math.Signbit(float64(c))
	case float64:
		return c == 0 && !math.Signbit(c)
	}
	return false
}

func isOneF(v value) bool {
	switch c := v.(type) {
	case float32:
		return c == 1
	case float64:
		return c == 1
	}
	return false
}

func symBinop(op token.Token, t types.Type, x, y value) value {
	var k types.BasicKind
	if s, ok := x.(*Sym); ok {
		k = s.kind
	} else if s, ok := y.(*Sym); ok {
		k = s.kind
		if op == token.SHL || op == token.SHR {
			k = kindOfValue(x)
		}
	}
	if op == token.SHL || op == token.SHR {
		return symShift(op, x, y)
	}
	if k == types.Bool {
		switch op {
		case token.EQL:
			if x == y {
				return true
			}
			if b, ok := y.(bool); ok {
				x, y = y, x
				_ = b
			}
			if b, ok := x.(bool); ok {
				if b {
					return y
				}
				return symNot(y)
			}
			return app(types.Bool, "beq", "=", x, y)
		case token.NEQ:
			return symNot(symBinop(token.EQL, t, x, y))
		case token.AND, token.LAND:
			return symAnd(x, y)
		case token.OR, token.LOR:
			return symOr(x, y)
		}
		panic(engineError{"bool op " + op.String()})
	}
	if isFloatK(k) {
		return symFloatBinop(op, k, x, y)
	}
	sg := isSigned(k)
	pick := func(s, u string) string {
		if sg {
			return s
		}
		return u
	}
	isConst := func(v value, c uint64) bool {
		if isSym(v) {
			return false
		}
		u := bitsOfConcrete(v)
		w := widthOf(k)
		if w < 64 {
			u &= (1 << uint(w)) - 1
		}
		return u == c
	}
	switch op {
	case token.ADD:
		if isConst(x, 0) {
			return y
		}
		if isConst(y, 0) {
			return x
		}
		if argKey(x) > argKey(y) {
			x, y = y, x
		}
		return app(k, "bvadd", "bvadd", x, y)
	case token.SUB:
		if isConst(y, 0) {
			return x
		}
		if x == y {
			return concreteOfBits(k, 0)
		}
		return app(k, "bvsub", "bvsub", x, y)
	case token.MUL:
		if isConst(x, 1) {
			return y
		}
		if isConst(y, 1) {
			return x
		}
		if isConst(x, 0) || isConst(y, 0) {
			return concreteOfBits(k, 0)
		}
		if argKey(x) > argKey(y) {
			x, y = y, x
		}
		return app(k, "bvmul", "bvmul", x, y)
	case token.QUO:
		// division by zero is checked by the caller (visitInstr)
		if isConst(y, 1) {
			return x
		}
		return app(k, "bvdiv", pick("bvsdiv", "bvudiv"), x, y)
	case token.REM:
		return app(k, "bvrem", pick("bvsrem", "bvurem"), x, y)
	case token.AND:
		if isConst(x, 0) || isConst(y, 0) {
			return concreteOfBits(k, 0)
		}
		return app(k, "bvand", "bvand", x, y)
	case token.OR:
		if isConst(x, 0) {
			return y
		}
		if isConst(y, 0) {
			return x
		}
		return app(k, "bvor", "bvor", x, y)
	case token.XOR:
		return app(k, "bvxor", "bvxor", x, y)
	case token.AND_NOT:
		ny := symUnop(token.XOR, y)
		return app(k, "bvand", "bvand", x, ny)
	case token.LSS:
		if x == y {
			return false
		}
		return app(types.Bool, "lt", pick("bvslt", "bvult"), x, y)
	case token.LEQ:
		if x == y {
			return true
		}
		return app(types.Bool, "le", pick("bvsle", "bvule"), x, y)
	case token.GTR:
		if x == y {
			return false
		}
		return app(types.Bool, "lt", pick("bvslt", "bvult"), y, x)
	case token.GEQ:
		if x == y {
			return true
		}
		return app(types.Bool, "le", pick("bvsle", "bvule"), y, x)
	case token.EQL:
		if x == y {
			return true
		}
		if argKey(x) > argKey(y) {
			x, y = y, x
		}
		return app(types.Bool, "eq", "=", x, y)
	case token.NEQ:
		return symNot(symBinop(token.EQL, t, x, y))
	}
	panic(engineError{fmt.Sprintf("symBinop: unsupported %s on kind %v", op, k)})
}

func symShift(op token.Token, x, y value) value {
	k := kindOfValue(x)
	w := widthOf(k)
	// shift count: unsigned (or non-negative) integer of any width
	var cnt value
	if ys, ok := y.(*Sym); ok {
		wy := widthOf(ys.kind)
		switch {
		case wy == w:
			cnt = ys
		case wy < w:
			cnt = mk(k, "zext", fmt.Sprintf("((_ zero_extend %d) %s)", w-wy, ys.name), ys)
		default:
			panic(engineError{"symbolic shift count wider than operand"})
		}
	} else {
		c := bitsOfConcrete(y)
		if c >= uint64(w) {
			c = uint64(w)
		}
		cnt = concreteOfBits(k, c)
		if !isSym(x) {
			panic("symShift on two concretes")
		}
	}
	if op == token.SHL {
		return app(k, "bvshl", "bvshl", x, cnt)
	}
	if isSigned(k) {
		return app(k, "bvashr", "bvashr", x, cnt)
	}
	return app(k, "bvlshr", "bvlshr", x, cnt)
}

func symFloatBinop(op token.Token, k types.BasicKind, x, y value) value {
	if r, ok := eiBinop(op, k, x, y); ok {
		return r
	}
	p := fpfx(k)
	switch op {
	case token.ADD:
		// (+0) + x -> x is only valid when x != -0: applied when x is known non-negative-zero
		if isZeroF(x) && nonNegZero(y) {
			return y
		}
		if isZeroF(y) && nonNegZero(x) {
			return x
		}
		// lemma L_add0_comm: (0+a)+b == (0+b)+a for all floats (discharged bit-precisely by
		// cvc5 in every run that relies on it): canonical order of a, b under a leading +0.
		if UseLemmaAdd0 {
			if a, b, ok := matchAdd0(x, y); ok {
				if argKey(a) > argKey(b) {
					a, b = b, a
				}
				var z value = float32(0)
				if k == types.Float64 {
					z = float64(0)
				}
				return app(k, "fadd", p+"_add", app(k, "fadd", p+"_add", z, a), b)
			}
		}
		if argKey(x) > argKey(y) { // IEEE addition is commutative (incl. NaN-ness; payloads are not observable in Go comparisons)
			x, y = y, x
		}
		return app(k, "fadd", p+"_add", x, y)
	case token.MUL:
		if isOneF(x) {
			return y
		}
		if isOneF(y) {
			return x
		}
		if X.lemmaSqAbs && x == y && isSym(x) {
			// lemmas L_sq_abs (x*x = |x|*|x|) and L_abs_sub (|b-a| = |a-b|): a squared
			// difference becomes independent of the operand order
			ax := symAbsAny(x.(*Sym))
			return app(k, "fmul", p+"_mul", ax, ax)
		}
		if argKey(x) > argKey(y) {
			x, y = y, x
		}
		return app(k, "fmul", p+"_mul", x, y)
	case token.SUB:
		return app(k, "fsub", p+"_sub", x, y)
	case token.QUO:
		if isOneF(y) {
			return x
		}
		return app(k, "fdiv", p+"_div", x, y)
	case token.LSS:
		if x == y {
			return false
		}
		return app(types.Bool, "flt", "fp.lt", x, y)
	case token.LEQ:
		return app(types.Bool, "fle", "fp.leq", x, y)
	case token.GTR:
		if x == y {
			return false
		}
		return app(types.Bool, "flt", "fp.lt", y, x)
	case token.GEQ:
		return app(types.Bool, "fle", "fp.leq", y, x)
	case token.EQL:
		if argKey(x) > argKey(y) {
			x, y = y, x
		}
		return app(types.Bool, "feq", "fp.eq", x, y)
	case token.NEQ:
		return symNot(symFloatBinop(token.EQL, k, x, y))
	}
	panic(engineError{"float op " + op.String()})
}

// nonNegZero reports whether v is syntactically known not to be -0
// (squares, sums of such, sqrt of such): then (+0)+v is bit-identical to v.
func nonNegZero(v value) bool {
	s, ok := v.(*Sym)
	if !ok {
		switch c := v.(type) {
		case float32:
			return !(c == 0 && math.Signbit(float64(c)))
		case float64:
			return !(c == 0 && math.Signbit(c))
		}
		return false
	}
	switch s.op {
	case "fmul":
		return s.args[0] == s.args[1] // x*x is +0, positive, +Inf or NaN
	case "fadd":
		return nonNegZero(s.args[0]) || nonNegZero(s.args[1]) // RNE: (-0)+(−0) is the only way to −0
	case "fsqrt":
		return nonNegZero(s.args[0])
	case "fabs":
		return true
	case "f2f":
		return nonNegZero(s.args[0])
	}
	return false
}

func symUnop(op token.Token, xv value) value {
	x, ok := xv.(*Sym)
	if !ok {
		panic("symUnop on concrete")
	}
	switch op {
	case token.NOT:
		return symNot(x)
	case token.SUB:
		if isFloatK(x.kind) {
			if x.ei {
				return eiNeg(x)
			}
			if x.op == "fneg" {
				return x.args[0]
			}
			return app(x.kind, "fneg", "fp.neg", x)
		}
		return app(x.kind, "bvneg", "bvneg", x)
	case token.XOR:
		return app(x.kind, "bvnot", "bvnot", x)
	}
	panic(engineError{"symUnop " + op.String()})
}

func symConv(dst types.BasicKind, x *Sym) value {
	src := x.kind
	if src == dst {
		return x
	}
	if src == types.Bool || dst == types.Bool || dst == types.String {
		panic(engineError{fmt.Sprintf("symConv %v -> %v", src, dst)})
	}
	switch {
	case isFloatK(src) && isFloatK(dst):
		if x.ei {
			return eiRetag(x, dst)
		}
		// float32(float64(x)) -> x  (exact: every float32 is a float64)
		if dst == types.Float32 && x.op == "f2f" {
			if in, ok := x.args[0].(*Sym); ok && in.kind == types.Float32 {
				return in
			}
		}
		// float32(math.Sqrt(float64(y))) == sqrt32(y): innocuous double rounding
		// (53 >= 2*24+2, Figueroa 1995); keeps float64 sqrt out of the T2 queries.
		if dst == types.Float32 && x.op == "fsqrt" {
			if in, ok := x.args[0].(*Sym); ok && in.op == "f2f" {
				if y, ok := in.args[0].(*Sym); ok && y.kind == types.Float32 {
					return app(types.Float32, "fsqrt", "f32_sqrt", y)
				}
			}
		}
		return app(dst, "f2f", "cvt_"+fpfx(src)+"_"+fpfx(dst), x)
	case !isFloatK(src) && isFloatK(dst):
		return app(dst, "i2f", fmt.Sprintf("i2f_%d_%v_%s", widthOf(src), isSigned(src), fpfx(dst)), x)
	case isFloatK(src) && !isFloatK(dst):
		if x.ei {
			panic(engineError{"EI float -> int conversion"})
		}
		return app(dst, "f2i", fmt.Sprintf("f2i_%s_%d_%v", fpfx(src), widthOf(dst), isSigned(dst)), x)
	}
	ws, wd := widthOf(src), widthOf(dst)
	switch {
	case wd == ws:
		return mk(dst, "cast", x.name, x) // same bits, other signedness
	case wd < ws:
		return symExtract(dst, x, wd-1, 0)
	case isSigned(src):
		return mk(dst, "sext", fmt.Sprintf("((_ sign_extend %d) %s)", wd-ws, x.name), x)
	}
	return mk(dst, "zext", fmt.Sprintf("((_ zero_extend %d) %s)", wd-ws, x.name), x)
}

func symExtract(dst types.BasicKind, x *Sym, hi, lo int) value {
	// look through same-width casts
	for x.op == "cast" {
		x = x.args[0].(*Sym)
	}
	return mk(dst, fmt.Sprintf("extract:%d:%d", hi, lo), fmt.Sprintf("((_ extract %d %d) %s)", hi, lo, x.name), x)
}

// ---------- unary float intrinsics ----------

func symSqrt64(x *Sym) value {
	if x.ei {
		return eiSqrt(x)
	}
	return app(types.Float64, "fsqrt", "f64_sqrt", x)
}

func symAbs64(x *Sym) value {
	if x.ei {
		return eiAbs(x)
	}
	if x.op == "fabs" {
		return x
	}
	return app(types.Float64, "fabs", "fp.abs", x)
}

func symFloatBits(x *Sym) value { // math.Float32bits / Float64bits
	if x.op == "frombits" {
		return x.args[0]
	}
	if x.kind == types.Float32 {
		s := app(types.Uint32, "tobits", "f32_bits", x)
		if s.axiom == "" {
			s.axiom = fmt.Sprintf("(= ((_ to_fp 8 24) %s) %s)", s.name, x.name)
			touch(s)
		}
		return s
	}
	s := app(types.Uint64, "tobits", "f64_bits", x)
	if s.axiom == "" {
		s.axiom = fmt.Sprintf("(= ((_ to_fp 11 53) %s) %s)", s.name, x.name)
		touch(s)
	}
	return s
}

func symFloatFromBits(x *Sym, dst types.BasicKind) value {
	for x.op == "cast" {
		x = x.args[0].(*Sym)
	}
	if x.op == "tobits" {
		return x.args[0]
	}
	if dst == types.Float32 {
		return mk(dst, "frombits", "((_ to_fp 8 24) "+x.name+")", x)
	}
	return mk(dst, "frombits", "((_ to_fp 11 53) "+x.name+")", x)
}

// symConcatBytes builds the little-endian integer of kind k from byte values.
// extract/concat normal form: bytes that are the consecutive extracts of one
// base term collapse back to it.
func symConcatBytes(k types.BasicKind, bs []value) value {
	allC := true
	for _, b := range bs {
		if isSym(b) {
			allC = false
		}
	}
	if allC {
		var u uint64
		for i, b := range bs {
			u |= (bitsOfConcrete(b) & 0xff) << (8 * uint(i))
		}
		return concreteOfBits(k, u)
	}
	// same base?
	var base *Sym
	ok := true
	for i, b := range bs {
		s, isS := b.(*Sym)
		if !isS || s.op != fmt.Sprintf("extract:%d:%d", 8*i+7, 8*i) {
			ok = false
			break
		}
		bb := s.args[0].(*Sym)
		if base == nil {
			base = bb
		} else if base != bb {
			ok = false
			break
		}
	}
	if ok && base != nil && widthOf(base.kind) == 8*len(bs) && !isFloatK(base.kind) {
		if base.kind == k {
			return base
		}
		return mk(k, "cast", base.name, base)
	}
	var sb strings.Builder
	sb.WriteString("(concat")
	args := make([]value, 0, len(bs))
	for i := len(bs) - 1; i >= 0; i-- {
		sb.WriteString(" ")
		sb.WriteString(term(bs[i]))
		args = append(args, bs[i])
	}
	sb.WriteString(")")
	if len(bs) == 1 {
		if s, ok := bs[0].(*Sym); ok {
			if s.kind == k {
				return s
			}
			return mk(k, "cast", s.name, s)
		}
	}
	return mk(k, "concat", sb.String(), args...)
}

// symByteOf returns byte i (little endian) of integer value v.
func symByteOf(v value, i int) value {
	if s, ok := v.(*Sym); ok {
		if widthOf(s.kind) == 8 && i == 0 {
			if s.kind == types.Uint8 {
				return s
			}
			return mk(types.Uint8, "cast", s.name, s)
		}
		return symExtract(types.Uint8, s, 8*i+7, 8*i)
	}
	return uint8(bitsOfConcrete(v) >> (8 * uint(i)))
}

// ---------- preludes ----------

const preludeCommon = `(set-option :global-declarations true)
(define-sort F32 () (_ FloatingPoint 8 24))
(define-sort F64 () (_ FloatingPoint 11 53))
(declare-fun f64_log (F64) F64)
(declare-fun f32_bits (F32) (_ BitVec 32))
(declare-fun f64_bits (F64) (_ BitVec 64))
`

func preludeT1() string {
	var sb strings.Builder
	sb.WriteString(preludeCommon)
	for _, p := range []string{"f32", "f64"} {
		S := strings.ToUpper(p)
		for _, o := range []string{"add", "sub", "mul", "div"} {
			fmt.Fprintf(&sb, "(declare-fun %s_%s (%s %s) %s)\n", p, o, S, S, S)
		}
		fmt.Fprintf(&sb, "(declare-fun %s_sqrt (%s) %s)\n", p, S, S)
		fmt.Fprintf(&sb, "(declare-fun %s_round (%s) %s)\n", p, S, S)
		fmt.Fprintf(&sb, "(declare-fun %s_floor (%s) %s)\n(declare-fun %s_ceil (%s) %s)\n(declare-fun %s_trunc (%s) %s)\n", p, S, S, p, S, S, p, S, S)
		for _, w := range []int{8, 16, 32, 64} {
			for _, sg := range []bool{true, false} {
				fmt.Fprintf(&sb, "(declare-fun i2f_%d_%v_%s ((_ BitVec %d)) %s)\n", w, sg, p, w, S)
				fmt.Fprintf(&sb, "(declare-fun f2i_%s_%d_%v (%s) (_ BitVec %d))\n", p, w, sg, S, w)
			}
		}
	}
	sb.WriteString("(declare-fun cvt_f32_f64 (F32) F64)\n(declare-fun cvt_f64_f32 (F64) F32)\n")
	return sb.String()
}

// preludeT2 defines the same symbols bit-precisely (IEEE 754, round to nearest
// even, Go's conversions).  math.Round is roundTiesToAway.  f64_sqrt applied
// to a widened float32 and narrowed again is encoded by the harness-visible
// simplification in extSqrt (Figueroa: innocuous double rounding).
func preludeT2() string {
	var sb strings.Builder
	sb.WriteString(preludeCommon)
	for _, p := range []string{"f32", "f64"} {
		S := strings.ToUpper(p)
		for _, o := range []string{"add", "sub", "mul", "div"} {
			fmt.Fprintf(&sb, "(define-fun %s_%s ((a %s) (b %s)) %s (fp.%s RNE a b))\n", p, o, S, S, S, o)
		}
		fmt.Fprintf(&sb, "(define-fun %s_sqrt ((a %s)) %s (fp.sqrt RNE a))\n", p, S, S)
		fmt.Fprintf(&sb, "(define-fun %s_round ((a %s)) %s (fp.roundToIntegral RNA a))\n", p, S, S)
		fmt.Fprintf(&sb, "(define-fun %s_floor ((a %s)) %s (fp.roundToIntegral RTN a))\n(define-fun %s_ceil ((a %s)) %s (fp.roundToIntegral RTP a))\n(define-fun %s_trunc ((a %s)) %s (fp.roundToIntegral RTZ a))\n", p, S, S, p, S, S, p, S, S)
		eb, sbits := 8, 24
		if p == "f64" {
			eb, sbits = 11, 53
		}
		for _, w := range []int{8, 16, 32, 64} {
			fmt.Fprintf(&sb, "(define-fun i2f_%d_true_%s ((a (_ BitVec %d))) %s ((_ to_fp %d %d) RNE a))\n", w, p, w, S, eb, sbits)
			fmt.Fprintf(&sb, "(define-fun i2f_%d_false_%s ((a (_ BitVec %d))) %s ((_ to_fp_unsigned %d %d) RNE a))\n", w, p, w, S, eb, sbits)
			fmt.Fprintf(&sb, "(define-fun f2i_%s_%d_true ((a %s)) (_ BitVec %d) ((_ fp.to_sbv %d) RTZ a))\n", p, w, S, w, w)
			fmt.Fprintf(&sb, "(define-fun f2i_%s_%d_false ((a %s)) (_ BitVec %d) ((_ fp.to_ubv %d) RTZ a))\n", p, w, S, w, w)
		}
	}
	sb.WriteString("(define-fun cvt_f32_f64 ((a F32)) F64 ((_ to_fp 11 53) RNE a))\n(define-fun cvt_f64_f32 ((a F64)) F32 ((_ to_fp 8 24) RNE a))\n")
	return sb.String()
}

// UseLemmaAdd0 enables the rewrite justified by lemma L_add0_comm.
var UseLemmaAdd0 = true

func isAdd0(v value) (value, bool) {
	s, ok := v.(*Sym)
	if !ok || s.op != "fadd" || len(s.args) != 2 {
		return nil, false
	}
	if isZeroF(s.args[0]) {
		return s.args[1], true
	}
	return nil, false
}

// matchAdd0 matches (0+a)+b with exactly one side of the form 0+a.
func matchAdd0(x, y value) (value, value, bool) {
	ax, okx := isAdd0(x)
	ay, oky := isAdd0(y)
	switch {
	case okx && !oky:
		return ax, y, true
	case oky && !okx:
		return ay, x, true
	}
	return nil, nil, false
}

// symAbsAny builds |x| with the canonical operand order for differences.
func symAbsAny(x *Sym) value {
	if x.op == "fabs" {
		return x
	}
	if x.op == "fsub" && argKey(x.args[0]) > argKey(x.args[1]) {
		x = app(x.kind, "fsub", fpfx(x.kind)+"_sub", x.args[1], x.args[0])
	}
	return app(x.kind, "fabs", "fp.abs", x)
}
