package interp

import (
	"os"
	"fmt"
	"go/token"
	"go/types"
	"sort"
	"strings"

	"golang.org/x/tools/go/ssa"
)

const (
	tokEQL = token.EQL
	tokLEQ = token.LEQ
	tokLSS = token.LSS
	tokADD = token.ADD
)

// lookupExternal finds an intrinsic for fn: exact name first, then generic
// instantiations by their origin's name.
func lookupExternal(fn *ssa.Function, name string) externalFn {
	if os.Getenv("VERIF_DEBUG_EXT") != "" && strings.Contains(name, "terator") {
		fmt.Fprintln(os.Stderr, "EXT?", name)
	}
	if ext := externals[name]; ext != nil {
		return ext
	}
	if strings.IndexByte(name, '[') >= 0 {
		// (*pkg.Iterator[string]).Next[string] -> (*pkg.Iterator).Next
		var sb strings.Builder
		depth := 0
		for _, c := range name {
			switch {
			case c == '[':
				depth++
			case c == ']':
				depth--
			case depth == 0:
				sb.WriteRune(c)
			}
		}
		if ext := externals[sb.String()]; ext != nil {
			return ext
		}
	}
	return nil
}

func init() {
	externals["(*github.com/clipperhouse/uax29/v2/internal/iterators.Iterator).Next"] = func(fr *frame, a []value) value {
		it := a[0].(*nativeTokIter)
		it.pos++
		return it.pos < len(it.toks)
	}
	externals["(*github.com/clipperhouse/uax29/v2/internal/iterators.Iterator).Value"] = func(fr *frame, a []value) value {
		it := a[0].(*nativeTokIter)
		return it.toks[it.pos]
	}
}

func rtPanic(msg string) {
	panic(targetPanic{iface{theInterp.runtimeErrorString, "runtime error: " + msg}})
}

// symIndex turns an index into a concrete in-range int; a symbolic index is
// first decided in/out of range (the out-of-range side is a panic path), then
// case-split over its feasible values.
func symIndex(idx value, n int) int {
	s, ok := idx.(*Sym)
	if !ok {
		i := asInt64(idx)
		if i < 0 || i >= int64(n) {
			rtPanic(fmt.Sprintf("index out of range [%d] with length %d", i, n))
		}
		return int(i)
	}
	k := s.kind
	inRange := symAnd(symBinop(token.LEQ, nil, concreteOfBits(k, 0), s), symBinop(token.LSS, nil, s, concreteOfBits(k, uint64(n))))
	if !isSigned(k) {
		inRange = symBinop(token.LSS, nil, s, concreteOfBits(k, uint64(n)))
	}
	if !asBool(inRange) {
		rtPanic(fmt.Sprintf("index out of range [symbolic] with length %d", n))
	}
	return int(concretize(s))
}

func symSlice(x, lo, hi, max value) value {
	if !isSym(lo) && !isSym(hi) && !isSym(max) {
		return slice(x, lo, hi, max)
	}
	var Len, Cap int
	switch x := x.(type) {
	case string:
		Len, Cap = len(x), len(x)
	case []value:
		Len, Cap = len(x), cap(x)
	case *value:
		a := (*x).(array)
		Len, Cap = len(a), cap(a)
	}
	_ = Len
	conc := func(v value, dflt int64) value {
		if v == nil {
			return nil
		}
		s, ok := v.(*Sym)
		if !ok {
			return v
		}
		k := s.kind
		in := symAnd(symBinop(token.LEQ, nil, concreteOfBits(k, 0), s), symBinop(token.LEQ, nil, s, concreteOfBits(k, uint64(Cap))))
		if !asBool(in) {
			rtPanic(fmt.Sprintf("slice bounds out of range [symbolic] with capacity %d", Cap))
		}
		return int(concretize(s))
	}
	return slice(x, conc(lo, 0), conc(hi, int64(Len)), conc(max, int64(Cap)))
}

const maxAlloc = 1 << 28

// symMakeSliceSizes returns concrete len / cap for make([]T, len, cap).
// A symbolic *capacity* that is not the length is only a hint: the path forks
// on "negative or absurd" (panic) and otherwise allocates exactly len; growth
// by append then behaves as in Go except for capacity-dependent aliasing,
// which no encoded function relies on (stated in DESIGN.md §3.2).
func symMakeSliceSizes(ln, cp value) (int, int) {
	var l int
	if s, ok := ln.(*Sym); ok {
		k := s.kind
		okRange := symAnd(symBinop(token.LEQ, nil, concreteOfBits(k, 0), s), symBinop(token.LEQ, nil, s, concreteOfBits(k, maxAlloc)))
		if !asBool(okRange) {
			rtPanic("makeslice: len out of range")
		}
		l = int(concretize(s))
	} else {
		l = int(asInt64(ln))
		if l < 0 {
			rtPanic("makeslice: len out of range")
		}
	}
	if s, ok := cp.(*Sym); ok {
		if cp == ln {
			return l, l
		}
		k := s.kind
		okRange := symAnd(symBinop(token.LEQ, nil, concreteOfBits(k, uint64(l)), s), symBinop(token.LEQ, nil, s, concreteOfBits(k, maxAlloc)))
		if !asBool(okRange) {
			rtPanic("makeslice: cap out of range")
		}
		return l, l
	}
	c := int(asInt64(cp))
	if c < l {
		rtPanic("makeslice: cap out of range")
	}
	return l, c
}

// ---------- deterministic map iteration ----------

func keyLess(a, b value) bool {
	switch x := a.(type) {
	case string:
		return x < b.(string)
	case bool:
		return !x && b.(bool)
	case float32:
		return x < b.(float32)
	case float64:
		return x < b.(float64)
	}
	if isSigned(kindOfValue(a)) {
		return asInt64(a) < asInt64(b)
	}
	return bitsOfConcrete(a) < bitsOfConcrete(b)
}

type sortedMapIter struct {
	m    map[value]value
	keys []value
	i    int
}

func newSortedMapIter(m map[value]value) *sortedMapIter {
	keys := make([]value, 0, len(m))
	for k := range m {
		keys = append(keys, k)
	}
	sort.Slice(keys, func(i, j int) bool {
		if mapOrderReverse {
			return keyLess(keys[j], keys[i])
		}
		return keyLess(keys[i], keys[j])
	})
	return &sortedMapIter{m: m, keys: keys}
}

func (it *sortedMapIter) next() tuple {
	for it.i < len(it.keys) {
		k := it.keys[it.i]
		it.i++
		if v, ok := it.m[k]; ok { // entries deleted during iteration are not produced
			return []value{true, k, v}
		}
	}
	return []value{false, nil, nil}
}

type sortedHashmapIter struct {
	es []*entry
	m  *hashmap
	i  int
}

func newSortedHashmapIter(m *hashmap) *sortedHashmapIter {
	var es []*entry
	var hs []int
	for h := range m.entries() {
		hs = append(hs, h)
	}
	sort.Ints(hs)
	for _, h := range hs {
		for e := m.entries()[h]; e != nil; e = e.next {
			es = append(es, e)
		}
	}
	return &sortedHashmapIter{es: es, m: m}
}

func (it *sortedHashmapIter) next() tuple {
	for it.i < len(it.es) {
		e := it.es[it.i]
		it.i++
		if it.m.lookup(e.key) != nil {
			return []value{true, e.key, e.value}
		}
	}
	return []value{false, nil, nil}
}

var _ = types.Bool
