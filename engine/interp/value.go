// Copyright 2013 The Go Authors. All rights reserved.
// Use of this source code is governed by a BSD-style
// license that can be found in the LICENSE file.

package interp

// Values
//
// All interpreter values are "boxed" in the empty interface, value.
// The range of possible dynamic types within value are:
//
// - bool
// - numbers (all built-in int/float/complex types are distinguished)
// - string
// - map[value]value --- maps for which  usesBuiltinMap(keyType)
//   *hashmap        --- maps for which !usesBuiltinMap(keyType)
// - chan value
// - []value --- slices
// - iface --- interfaces.
// - structure --- structs.  Fields are ordered and accessed by numeric indices.
// - array --- arrays.
// - *value --- pointers.  Careful: *value is a distinct type from *array etc.
// - *ssa.Function \
//   *ssa.Builtin   } --- functions.  A nil 'func' is always of type *ssa.Function.
//   *closure      /
// - tuple --- as returned by Return, Next, "value,ok" modes, etc.
// - iter --- iterators from 'range' over map or string.
// - bad --- a poison pill for locals that have gone out of scope.
// - rtype -- the interpreter's concrete implementation of reflect.Type
// - **deferred -- the address of a frame's defer stack for a Defer._Stack.
//
// Note that nil is not on this list.
//
// Pay close attention to whether or not the dynamic type is a pointer.
// The compiler cannot help you since value is an empty interface.

import (
	"bytes"
	"fmt"
	"go/types"
	"io"
	"reflect"
	"strings"
	"sync"
	"unsafe"

	"golang.org/x/tools/go/ssa"
	"golang.org/x/tools/go/types/typeutil"
)

type value interface{}

type tuple []value

type array []value

type iface struct {
	t types.Type // never an "untyped" type
	v value
}

type structure []value

// For map, array, *array, slice, string or channel.
type iter interface {
	// next returns a Tuple (key, value, ok).
	// key and value are unaliased, e.g. copies of the sequence element.
	next() tuple
}

type closure struct {
	Fn  *ssa.Function
	Env []value
}

type bad struct{}

type rtype struct {
	t types.Type
}

// Hash functions and equivalence relation:

// hashString computes the FNV hash of s.
func hashString(s string) int {
	var h uint32
	for i := 0; i < len(s); i++ {
		h ^= uint32(s[i])
		h *= 16777619
	}
	return int(h)
}

var (
	mu     sync.Mutex
	hasher = typeutil.MakeHasher()
)

// hashType returns a hash for t such that
// types.Identical(x, y) => hashType(x) == hashType(y).
func hashType(t types.Type) int {
	return int(hasher.Hash(t))
}

// usesBuiltinMap returns true if the built-in hash function and
// equivalence relation for type t are consistent with those of the
// interpreter's representation of type t.  Such types are: all basic
// types (bool, numbers, string), pointers and channels.
//
// usesBuiltinMap returns false for types that require a custom map
// implementation: interfaces, arrays and structs.
//
// Panic ensues if t is an invalid map key type: function, map or slice.
func usesBuiltinMap(t types.Type) bool {
	switch t := t.(type) {
	case *types.Basic, *types.Chan, *types.Pointer:
		return true
	case *types.Named, *types.Alias:
		return usesBuiltinMap(t.Underlying())
	case *types.Interface, *types.Array, *types.Struct:
		return false
	}
	panic(fmt.Sprintf("invalid map key type: %T", t))
}

func (x array) eq(t types.Type, _y interface{}) bool {
	y := _y.(array)
	tElt := t.Underlying().(*types.Array).Elem()
	for i, xi := range x {
		if !equals(tElt, xi, y[i]) {
			return false
		}
	}
	return true
}

func (x array) hash(t types.Type) int {
	h := 0
	tElt := t.Underlying().(*types.Array).Elem()
	for _, xi := range x {
		h += hash(t, tElt, xi)
	}
	return h
}

func (x structure) eq(t types.Type, _y interface{}) bool {
	y := _y.(structure)
	tStruct := t.Underlying().(*types.Struct)
	for i, n := 0, tStruct.NumFields(); i < n; i++ {
		if f := tStruct.Field(i); !f.Anonymous() {
			if !equals(f.Type(), x[i], y[i]) {
				return false
			}
		}
	}
	return true
}

func (x structure) hash(t types.Type) int {
	tStruct := t.Underlying().(*types.Struct)
	h := 0
	for i, n := 0, tStruct.NumFields(); i < n; i++ {
		if f := tStruct.Field(i); !f.Anonymous() {
			h += hash(t, f.Type(), x[i])
		}
	}
	return h
}

// nil-tolerant variant of types.Identical.
func sameType(x, y types.Type) bool {
	if x == nil {
		return y == nil
	}
	return y != nil && types.Identical(x, y)
}

func (x iface) eq(t types.Type, _y interface{}) bool {
	y := _y.(iface)
	return sameType(x.t, y.t) && (x.t == nil || equals(x.t, x.v, y.v))
}

func (x iface) hash(outer types.Type) int {
	return hashType(x.t)*8581 + hash(outer, x.t, x.v)
}

func (x rtype) hash(_ types.Type) int {
	return hashType(x.t)
}

func (x rtype) eq(_ types.Type, y interface{}) bool {
	return types.Identical(x.t, y.(rtype).t)
}

// equals returns true iff x and y are equal according to Go's
// linguistic equivalence relation for type t.
// In a well-typed program, the dynamic types of x and y are
// guaranteed equal.
func equals(t types.Type, x, y value) bool {
	switch x := x.(type) {
	case bool:
		return x == y.(bool)
	case int:
		return x == y.(int)
	case int8:
		return x == y.(int8)
	case int16:
		return x == y.(int16)
	case int32:
		return x == y.(int32)
	case int64:
		return x == y.(int64)
	case uint:
		return x == y.(uint)
	case uint8:
		return x == y.(uint8)
	case uint16:
		return x == y.(uint16)
	case uint32:
		return x == y.(uint32)
	case uint64:
		return x == y.(uint64)
	case uintptr:
		return x == y.(uintptr)
	case float32:
		return x == y.(float32)
	case float64:
		return x == y.(float64)
	case complex64:
		return x == y.(complex64)
	case complex128:
		return x == y.(complex128)
	case string:
		return x == y.(string)
	case *value:
		return x == y.(*value)
	case *vchan:
		return x == y.(*vchan)
	case *Sym:
		panic(engineError{"equals on symbolic value inside a composite"})
	case structure:
		return x.eq(t, y)
	case array:
		return x.eq(t, y)
	case iface:
		return x.eq(t, y)
	case rtype:
		return x.eq(t, y)
	}

	// Since map, func and slice don't support comparison, this
	// case is only reachable if one of x or y is literally nil
	// (handled in eqnil) or via interface{} values.
	panic(fmt.Sprintf("comparing uncomparable type %s", t))
}

// Returns an integer hash of x such that equals(x, y) => hash(x) == hash(y).
// The outer type is used only for the "unhashable" panic message.
func hash(outer, t types.Type, x value) int {
	switch x := x.(type) {
	case bool:
		if x {
			return 1
		}
		return 0
	case int:
		return x
	case int8:
		return int(x)
	case int16:
		return int(x)
	case int32:
		return int(x)
	case int64:
		return int(x)
	case uint:
		return int(x)
	case uint8:
		return int(x)
	case uint16:
		return int(x)
	case uint32:
		return int(x)
	case uint64:
		return int(x)
	case uintptr:
		return int(x)
	case float32:
		return int(x)
	case float64:
		return int(x)
	case complex64:
		return int(real(x))
	case complex128:
		return int(real(x))
	case string:
		return hashString(x)
	case *value:
		return int(uintptr(unsafe.Pointer(x)))
	case *vchan:
		return int(uintptr(reflect.ValueOf(x).Pointer()))
	case structure:
		return x.hash(t)
	case array:
		return x.hash(t)
	case iface:
		return x.hash(t)
	case rtype:
		return x.hash(t)
	}
	panic(fmt.Sprintf("unhashable type %v", outer))
}

// reflect.Value struct values don't have a fixed shape, since the
// payload can be a scalar or an aggregate depending on the instance.
// So store (and load) can't simply use recursion over the shape of the
// rhs value, or the lhs, to copy the value; we need the static type
// information.  (We can't make reflect.Value a new basic data type
// because its "structness" is exposed to Go programs.)

// load returns the value of type T in *addr.
func load(T types.Type, addr *value) value {
	switch T := T.Underlying().(type) {
	case *types.Struct:
		v := (*addr).(structure)
		a := make(structure, len(v))
		for i := range a {
			a[i] = load(T.Field(i).Type(), &v[i])
		}
		return a
	case *types.Array:
		v := (*addr).(array)
		a := make(array, len(v))
		for i := range a {
			a[i] = load(T.Elem(), &v[i])
		}
		return a
	default:
		lsAccess(addr, false)
		return *addr
	}
}

// store stores value v of type T into *addr.
func store(T types.Type, addr *value, v value) {
	switch T := T.Underlying().(type) {
	case *types.Struct:
		lhs := (*addr).(structure)
		rhs := v.(structure)
		for i := range lhs {
			store(T.Field(i).Type(), &lhs[i], rhs[i])
		}
	case *types.Array:
		lhs := (*addr).(array)
		rhs := v.(array)
		for i := range lhs {
			store(T.Elem(), &lhs[i], rhs[i])
		}
	default:
		lsAccess(addr, true)
		*addr = v
	}
}

// Prints in the style of built-in println.
// (More or less; in gc println is actually a compiler intrinsic and
// can distinguish println(1) from println(interface{}(1)).)
func writeValue(buf *bytes.Buffer, v value) {
	switch v := v.(type) {
	case nil, bool, int, int8, int16, int32, int64, uint, uint8, uint16, uint32, uint64, uintptr, float32, float64, complex64, complex128, string:
		fmt.Fprintf(buf, "%v", v)

	case map[value]value:
		buf.WriteString("map[")
		sep := ""
		for k, e := range v {
			buf.WriteString(sep)
			sep = " "
			writeValue(buf, k)
			buf.WriteString(":")
			writeValue(buf, e)
		}
		buf.WriteString("]")

	case *hashmap:
		buf.WriteString("map[")
		sep := " "
		for _, e := range v.entries() {
			for e != nil {
				buf.WriteString(sep)
				sep = " "
				writeValue(buf, e.key)
				buf.WriteString(":")
				writeValue(buf, e.value)
				e = e.next
			}
		}
		buf.WriteString("]")

	case *vchan:
		fmt.Fprintf(buf, "%v", v) // (an address)

	case *value:
		if v == nil {
			buf.WriteString("<nil>")
		} else {
			fmt.Fprintf(buf, "%p", v)
		}

	case iface:
		fmt.Fprintf(buf, "(%s, ", v.t)
		writeValue(buf, v.v)
		buf.WriteString(")")

	case structure:
		buf.WriteString("{")
		for i, e := range v {
			if i > 0 {
				buf.WriteString(" ")
			}
			writeValue(buf, e)
		}
		buf.WriteString("}")

	case array:
		buf.WriteString("[")
		for i, e := range v {
			if i > 0 {
				buf.WriteString(" ")
			}
			writeValue(buf, e)
		}
		buf.WriteString("]")

	case []value:
		buf.WriteString("[")
		for i, e := range v {
			if i > 0 {
				buf.WriteString(" ")
			}
			writeValue(buf, e)
		}
		buf.WriteString("]")

	case *ssa.Function, *ssa.Builtin, *closure:
		fmt.Fprintf(buf, "%p", v) // (an address)

	case rtype:
		buf.WriteString(v.t.String())

	case tuple:
		// Unreachable in well-formed Go programs
		buf.WriteString("(")
		for i, e := range v {
			if i > 0 {
				buf.WriteString(", ")
			}
			writeValue(buf, e)
		}
		buf.WriteString(")")

	default:
		fmt.Fprintf(buf, "<%T>", v)
	}
}

// Implements printing of Go values in the style of built-in println.
func toString(v value) string {
	var b bytes.Buffer
	writeValue(&b, v)
	return b.String()
}

// ------------------------------------------------------------------------
// Iterators

type stringIter struct {
	*strings.Reader
	i int
}

func (it *stringIter) next() tuple {
	okv := make(tuple, 3)
	ch, n, err := it.ReadRune()
	ok := err != io.EOF
	okv[0] = ok
	if ok {
		okv[1] = it.i
		okv[2] = ch
	}
	it.i += n
	return okv
}

type mapIter struct {
	iter *reflect.MapIter
	ok   bool
}

func (it *mapIter) next() tuple {
	it.ok = it.iter.Next()
	if !it.ok {
		return []value{false, nil, nil}
	}
	k, v := it.iter.Key().Interface(), it.iter.Value().Interface()
	return []value{true, k, v}
}

type hashmapIter struct {
	iter *reflect.MapIter
	ok   bool
	cur  *entry
}

func (it *hashmapIter) next() tuple {
	for {
		if it.cur != nil {
			k, v := it.cur.key, it.cur.value
			it.cur = it.cur.next
			return []value{true, k, v}
		}
		it.ok = it.iter.Next()
		if !it.ok {
			return []value{false, nil, nil}
		}
		it.cur = it.iter.Value().Interface().(*entry)
	}
}
