package interp

// If-conversion of side-effect-free diamonds whose join only defines float or
// bool phis (DESIGN.md §3.2): both arms are evaluated and the phi becomes an
// ite term instead of a fork.  Exact (no approximation); diamonds that define
// an integer (later used as an index) are forked as usual.

import (
	"go/token"
	"go/types"

	"golang.org/x/tools/go/ssa"
)

type mergeEdge struct {
	pred  *ssa.BasicBlock
	to    *ssa.BasicBlock
	guard value
}

func pureInstr(in ssa.Instruction) bool {
	switch v := in.(type) {
	case *ssa.BinOp:
		if b, ok := v.X.Type().Underlying().(*types.Basic); ok {
			if b.Info()&types.IsFloat != 0 || b.Info()&types.IsBoolean != 0 {
				return true
			}
			if b.Info()&types.IsInteger != 0 && v.Op != token.QUO && v.Op != token.REM && v.Op != token.SHL && v.Op != token.SHR {
				return true
			}
		}
		return false
	case *ssa.UnOp:
		return v.Op == token.SUB || v.Op == token.NOT
	case *ssa.Convert:
		_, ok1 := v.X.Type().Underlying().(*types.Basic)
		_, ok2 := v.Type().Underlying().(*types.Basic)
		if ok1 && ok2 {
			k := v.Type().Underlying().(*types.Basic)
			return k.Info()&types.IsString == 0 && v.X.Type().Underlying().(*types.Basic).Info()&types.IsString == 0
		}
		return false
	case *ssa.DebugRef:
		return true
	}
	return false
}

// transparent: single predecessor, only pure instructions, ends in Jump or If.
func transparent(b *ssa.BasicBlock) bool {
	if len(b.Preds) != 1 || len(b.Instrs) == 0 || len(b.Instrs) > 6 {
		return false
	}
	for i, in := range b.Instrs {
		if i == len(b.Instrs)-1 {
			switch in.(type) {
			case *ssa.Jump, *ssa.If:
				return true
			}
			return false
		}
		if !pureInstr(in) {
			return false
		}
	}
	return false
}

func collectEdges(fr *frame, from, b *ssa.BasicBlock, guard value, depth int, out *[]mergeEdge) bool {
	if depth > 3 || len(*out) > 4 {
		return false
	}
	if !transparent(b) {
		*out = append(*out, mergeEdge{from, b, guard})
		return true
	}
	for i, in := range b.Instrs {
		if i == len(b.Instrs)-1 {
			switch last := in.(type) {
			case *ssa.Jump:
				return collectEdges(fr, b, b.Succs[0], guard, depth+1, out)
			case *ssa.If:
				c := fr.get(last.Cond)
				return collectEdges(fr, b, b.Succs[0], symAnd(guard, c), depth+1, out) &&
					collectEdges(fr, b, b.Succs[1], symAnd(guard, symNot(c)), depth+1, out)
			}
			return false
		}
		if _, ok := in.(*ssa.DebugRef); ok {
			continue
		}
		visitInstr(fr, in) // pure: defines an SSA value only
	}
	return false
}

func tryIfConvert(fr *frame, instr *ssa.If, cond *Sym) bool {
	b := fr.block
	var edges []mergeEdge
	if !collectEdges(fr, b, b.Succs[0], cond, 0, &edges) || !collectEdges(fr, b, b.Succs[1], symNot(cond), 0, &edges) {
		return false
	}
	if len(edges) < 2 {
		return false
	}
	J := edges[0].to
	for _, e := range edges {
		if e.to != J {
			return false
		}
	}
	// the join must be reached only through the region (every predecessor accounted for once)
	if len(J.Preds) != len(edges) {
		return false
	}
	var phis []*ssa.Phi
	for _, in := range J.Instrs {
		p, ok := in.(*ssa.Phi)
		if !ok {
			break
		}
		bt, ok := p.Type().Underlying().(*types.Basic)
		if !ok || bt.Info()&(types.IsFloat|types.IsBoolean) == 0 {
			return false
		}
		phis = append(phis, p)
	}
	if len(phis) == 0 {
		return false
	}
	predIndex := func(pb *ssa.BasicBlock) int {
		for i, p := range J.Preds {
			if p == pb {
				return i
			}
		}
		return -1
	}
	vals := make([]value, len(phis))
	for pi, p := range phis {
		k := kindOfType(p.Type())
		var v value
		for ei := len(edges) - 1; ei >= 0; ei-- {
			idx := predIndex(edges[ei].pred)
			if idx < 0 {
				return false
			}
			ev := fr.get(p.Edges[idx])
			if ei == len(edges)-1 {
				v = ev
			} else {
				v = symIte(k, edges[ei].guard, ev, v)
			}
		}
		vals[pi] = v
	}
	for pi, p := range phis {
		fr.env[p] = vals[pi]
	}
	fr.prevBlock, fr.block = edges[0].pred, J
	fr.skipPhis = true
	X.Stats.Merged++
	return true
}
