// Copyright 2013 The Go Authors. All rights reserved.
// Use of this source code is governed by a BSD-style
// license that can be found in the LICENSE file.

package interp

// Custom hashtable atop map.
// For use when the key's equivalence relation is not consistent with ==.

// The Go specification doesn't address the atomicity of map operations.
// The FAQ states that an implementation is permitted to crash on
// concurrent map access.

import (
	"go/types"
)

type hashable interface {
	hash(t types.Type) int
	eq(t types.Type, x interface{}) bool
}

type entry struct {
	key   hashable
	value value
	next  *entry
}

// A hashtable atop the built-in map.  Since each bucket contains
// exactly one hash value, there's no need to perform hash-equality
// tests when walking the linked list.  Rehashing is done by the
// underlying map.
type hashmap struct {
	keyType types.Type
	table   map[int]*entry
	length  int // number of entries in map
}

// makeMap returns an empty initialized map of key type kt,
// preallocating space for reserve elements.
func makeMap(kt types.Type, reserve int64) value {
	if usesBuiltinMap(kt) {
		return make(map[value]value, reserve)
	}
	return &hashmap{keyType: kt, table: make(map[int]*entry, reserve)}
}

// delete removes the association for key k, if any.
func (m *hashmap) delete(k hashable) {
	if m != nil {
		hash := k.hash(m.keyType)
		head := m.table[hash]
		if head != nil {
			if k.eq(m.keyType, head.key) {
				m.table[hash] = head.next
				m.length--
				return
			}
			prev := head
			for e := head.next; e != nil; e = e.next {
				if k.eq(m.keyType, e.key) {
					prev.next = e.next
					m.length--
					return
				}
				prev = e
			}
		}
	}
}

// lookup returns the value associated with key k, if present, or
// value(nil) otherwise.
func (m *hashmap) lookup(k hashable) value {
	if m != nil {
		hash := k.hash(m.keyType)
		for e := m.table[hash]; e != nil; e = e.next {
			if k.eq(m.keyType, e.key) {
				return e.value
			}
		}
	}
	return nil
}

// insert updates the map to associate key k with value v.  If there
// was already an association for an eq() (though not necessarily ==)
// k, the previous key remains in the map and its associated value is
// updated.
func (m *hashmap) insert(k hashable, v value) {
	hash := k.hash(m.keyType)
	head := m.table[hash]
	for e := head; e != nil; e = e.next {
		if k.eq(m.keyType, e.key) {
			e.value = v
			return
		}
	}
	m.table[hash] = &entry{
		key:   k,
		value: v,
		next:  head,
	}
	m.length++
}

// len returns the number of key/value associations in the map.
func (m *hashmap) len() int {
	if m != nil {
		return m.length
	}
	return 0
}

// entries returns a rangeable map of entries.
func (m *hashmap) entries() map[int]*entry {
	if m != nil {
		return m.table
	}
	return nil
}
