package interp

// Eraser-style lockset analysis (Savage et al. 1997, with read/write lock modes)
// along every explored schedule of a 2-thread harness: a memory cell that is
// written by one harness thread and accessed by the other while no common lock
// protects the accesses (one side holding it exclusively) is reported, even if
// the interleavings explored show no wrong result — this is what catches a lock
// that was dropped or downgraded on one path (such code has no switch point inside
// and therefore looks atomic to the cooperative scheduler).
//
// States per cell: virgin -> exclusive(first thread) -> shared (read by a second
// thread) / shared-modified (written after becoming shared, or written by the second
// thread).  The candidate set starts when the cell leaves the exclusive state.
// Objects handed over through sync.Pool are reset to virgin at Get (a pool
// hand-over is a happens-before edge Eraser does not know).  Only accesses by
// threads other than the main (harness) thread are recorded, and only while the
// harness has switched the analysis on.

import (
	"fmt"
	"reflect"
	"sort"
	"strings"
)

type lsState struct {
	state int // 1 exclusive, 2 shared, 3 shared-modified
	owner *thread
	cand  map[*value]bool // candidate locks still protecting the cell
	where string          // first access (diagnostics)
}

type locksetT struct {
	on       bool
	cells    map[*value]*lsState
	maps     map[uintptr]*lsState
	reported map[string]bool
}

var LS = &locksetT{}

func resetLockset() {
	LS = &locksetT{cells: map[*value]*lsState{}, maps: map[uintptr]*lsState{}, reported: map[string]bool{}}
}

func lsAccess(addr *value, write bool) {
	if !LS.on || S == nil || S.cur == nil || S.cur.id == 0 || addr == nil {
		return
	}
	st := LS.cells[addr]
	if st == nil {
		st = &lsState{}
		LS.cells[addr] = st
	}
	lsUpdate(st, write)
}

func lsMapAccess(m value, write bool) {
	if !LS.on || S == nil || S.cur == nil || S.cur.id == 0 {
		return
	}
	rv := reflect.ValueOf(m)
	if rv.Kind() != reflect.Map && rv.Kind() != reflect.Ptr {
		return
	}
	if rv.IsNil() {
		return
	}
	k := rv.Pointer()
	st := LS.maps[k]
	if st == nil {
		st = &lsState{}
		LS.maps[k] = st
	}
	lsUpdate(st, write)
}

// locks the current thread holds: all (any mode) and exclusive (write mode)
func lsHeld() (any map[*value]bool, excl map[*value]bool) {
	any, excl = map[*value]bool{}, map[*value]bool{}
	cur := S.cur
	for p, l := range S.locks {
		if l.writer == cur {
			any[p], excl[p] = true, true
		}
		if l.readers[cur] > 0 {
			any[p] = true
		}
	}
	return
}

func lsUpdate(st *lsState, write bool) {
	cur := S.cur
	switch st.state {
	case 0:
		st.state, st.owner, st.where = 1, cur, whereAmI()
		return
	case 1:
		if st.owner == cur {
			return
		}
		// second thread: the candidate set starts with the locks held now
		any, excl := lsHeld()
		st.cand = map[*value]bool{}
		if write {
			for p := range excl {
				st.cand[p] = true
			}
			st.state = 3
		} else {
			for p := range any {
				st.cand[p] = true
			}
			st.state = 2
		}
	default:
		any, excl := lsHeld()
		for p := range st.cand {
			if write && !excl[p] || !write && !any[p] {
				delete(st.cand, p)
			}
		}
		if write {
			st.state = 3
		}
	}
	if st.state == 3 && len(st.cand) == 0 {
		w := whereAmI()
		key := lsSite(w) + " / " + lsSite(st.where)
		if !LS.reported[key] {
			LS.reported[key] = true
			X.tags = append(X.tags, "unprotected="+lsSite(w))
			X.vAssert(false, "lockset: a cell written by one thread is accessed by the other with no common lock (first access in "+lsSite(st.where)+")")
		}
	}
}

// lsSite: innermost comet function of a call-stack string
func lsSite(w string) string {
	parts := strings.Split(w, " > ")
	for i := len(parts) - 1; i >= 0; i-- {
		if strings.Contains(parts[i], cometPath) && !strings.Contains(parts[i], ".H_") && !strings.Contains(parts[i], ".vPar") {
			return strings.TrimPrefix(parts[i], cometPath+".")
		}
	}
	return parts[len(parts)-1]
}

// lsForget resets every cell reachable from v (a pooled object handed to another thread)
func lsForget(v value, depth int) {
	if !LS.on || depth > 6 {
		return
	}
	switch x := v.(type) {
	case *value:
		if x == nil {
			return
		}
		delete(LS.cells, x)
		lsForget(*x, depth+1)
	case structure:
		for i := range x {
			delete(LS.cells, &x[i])
			lsForget(x[i], depth+1)
		}
	case array:
		for i := range x {
			delete(LS.cells, &x[i])
			lsForget(x[i], depth+1)
		}
	case []value:
		full := x[:cap(x)]
		for i := range full {
			delete(LS.cells, &full[i])
			if depth < 3 {
				lsForget(full[i], depth+1)
			}
		}
	case iface:
		lsForget(x.v, depth+1)
	case map[value]value:
		delete(LS.maps, reflect.ValueOf(x).Pointer())
	}
}

func lsSummary() string {
	var ks []string
	for k := range LS.reported {
		ks = append(ks, k)
	}
	sort.Strings(ks)
	return fmt.Sprint(ks)
}
