// Copyright 2013 The Go Authors. All rights reserved.
// Use of this source code is governed by a BSD-style
// license that can be found in the LICENSE file.

package interp

import (
	"bytes"
	"fmt"
	"go/constant"
	"go/token"
	"go/types"
	"os"
	"strings"
	"unsafe"

	"golang.org/x/tools/go/ssa"
)

// If the target program panics, the interpreter panics with this type.
type targetPanic struct {
	v value
}

func (p targetPanic) String() string {
	return toString(p.v)
}

// If the target program calls exit, the interpreter panics with this type.
type exitPanic int

// constValue returns the value of the constant with the
// dynamic type tag appropriate for c.Type().
func constValue(c *ssa.Const) value {
	if c.Value == nil {
		return zero(c.Type()) // typed zero
	}
	// c is not a type parameter so it's underlying type is basic.

	if t, ok := c.Type().Underlying().(*types.Basic); ok {
		// TODO(adonovan): eliminate untyped constants from SSA form.
		switch t.Kind() {
		case types.Bool, types.UntypedBool:
			return constant.BoolVal(c.Value)
		case types.Int, types.UntypedInt:
			// Assume sizeof(int) is same on host and target.
			return int(c.Int64())
		case types.Int8:
			return int8(c.Int64())
		case types.Int16:
			return int16(c.Int64())
		case types.Int32, types.UntypedRune:
			return int32(c.Int64())
		case types.Int64:
			return c.Int64()
		case types.Uint:
			// Assume sizeof(uint) is same on host and target.
			return uint(c.Uint64())
		case types.Uint8:
			return uint8(c.Uint64())
		case types.Uint16:
			return uint16(c.Uint64())
		case types.Uint32:
			return uint32(c.Uint64())
		case types.Uint64:
			return c.Uint64()
		case types.Uintptr:
			// Assume sizeof(uintptr) is same on host and target.
			return uintptr(c.Uint64())
		case types.Float32:
			return float32(c.Float64())
		case types.Float64, types.UntypedFloat:
			return c.Float64()
		case types.Complex64:
			return complex64(c.Complex128())
		case types.Complex128, types.UntypedComplex:
			return c.Complex128()
		case types.String, types.UntypedString:
			if c.Value.Kind() == constant.String {
				return constant.StringVal(c.Value)
			}
			return string(rune(c.Int64()))
		}
	}

	panic(fmt.Sprintf("constValue: %s", c))
}

// fitsInt returns true if x fits in type int according to sizes.
func fitsInt(x int64, sizes types.Sizes) bool {
	intSize := sizes.Sizeof(types.Typ[types.Int])
	if intSize < sizes.Sizeof(types.Typ[types.Int64]) {
		maxInt := int64(1)<<((intSize*8)-1) - 1
		minInt := -int64(1) << ((intSize * 8) - 1)
		return minInt <= x && x <= maxInt
	}
	return true
}

// asInt64 converts x, which must be an integer, to an int64.
//
// Callers that need a value directly usable as an int should combine this with fitsInt().
func asInt64(x value) int64 {
	switch x := x.(type) {
	case *Sym:
		return concretize(x)
	case int:
		return int64(x)
	case int8:
		return int64(x)
	case int16:
		return int64(x)
	case int32:
		return int64(x)
	case int64:
		return x
	case uint:
		return int64(x)
	case uint8:
		return int64(x)
	case uint16:
		return int64(x)
	case uint32:
		return int64(x)
	case uint64:
		return int64(x)
	case uintptr:
		return int64(x)
	}
	panic(fmt.Sprintf("cannot convert %T to int64", x))
}

// asUint64 converts x, which must be an unsigned integer, to a uint64
// suitable for use as a bitwise shift count.
func asUint64(x value) uint64 {
	switch x := x.(type) {
	case uint:
		return uint64(x)
	case uint8:
		return uint64(x)
	case uint16:
		return uint64(x)
	case uint32:
		return uint64(x)
	case uint64:
		return x
	case uintptr:
		return uint64(x)
	}
	panic(fmt.Sprintf("cannot convert %T to uint64", x))
}

// asUnsigned returns the value of x, which must be an integer type, as its equivalent unsigned type,
// and returns true if x is non-negative.
func asUnsigned(x value) (value, bool) {
	switch x := x.(type) {
	case int:
		return uint(x), x >= 0
	case int8:
		return uint8(x), x >= 0
	case int16:
		return uint16(x), x >= 0
	case int32:
		return uint32(x), x >= 0
	case int64:
		return uint64(x), x >= 0
	case uint, uint8, uint32, uint64, uintptr:
		return x, true
	}
	panic(fmt.Sprintf("cannot convert %T to unsigned", x))
}

// zero returns a new "zero" value of the specified type.
func zero(t types.Type) value {
	switch t := t.(type) {
	case *types.Basic:
		if t.Kind() == types.UntypedNil {
			panic("untyped nil has no zero value")
		}
		if t.Info()&types.IsUntyped != 0 {
			// TODO(adonovan): make it an invariant that
			// this is unreachable.  Currently some
			// constants have 'untyped' types when they
			// should be defaulted by the typechecker.
			t = types.Default(t).(*types.Basic)
		}
		switch t.Kind() {
		case types.Bool:
			return false
		case types.Int:
			return int(0)
		case types.Int8:
			return int8(0)
		case types.Int16:
			return int16(0)
		case types.Int32:
			return int32(0)
		case types.Int64:
			return int64(0)
		case types.Uint:
			return uint(0)
		case types.Uint8:
			return uint8(0)
		case types.Uint16:
			return uint16(0)
		case types.Uint32:
			return uint32(0)
		case types.Uint64:
			return uint64(0)
		case types.Uintptr:
			return uintptr(0)
		case types.Float32:
			return float32(0)
		case types.Float64:
			return float64(0)
		case types.Complex64:
			return complex64(0)
		case types.Complex128:
			return complex128(0)
		case types.String:
			return ""
		case types.UnsafePointer:
			return unsafe.Pointer(nil)
		default:
			panic(fmt.Sprint("zero for unexpected type:", t))
		}
	case *types.Pointer:
		return (*value)(nil)
	case *types.Array:
		a := make(array, t.Len())
		for i := range a {
			a[i] = zero(t.Elem())
		}
		return a
	case *types.Named:
		return zero(t.Underlying())
	case *types.Alias:
		return zero(types.Unalias(t))
	case *types.Interface:
		return iface{} // nil type, methodset and value
	case *types.Slice:
		return []value(nil)
	case *types.Struct:
		s := make(structure, t.NumFields())
		for i := range s {
			s[i] = zero(t.Field(i).Type())
		}
		return s
	case *types.Tuple:
		if t.Len() == 1 {
			return zero(t.At(0).Type())
		}
		s := make(tuple, t.Len())
		for i := range s {
			s[i] = zero(t.At(i).Type())
		}
		return s
	case *types.Chan:
		return (*vchan)(nil)
	case *types.Map:
		if usesBuiltinMap(t.Key()) {
			return map[value]value(nil)
		}
		return (*hashmap)(nil)
	case *types.Signature:
		return (*ssa.Function)(nil)
	}
	panic(fmt.Sprint("zero: unexpected ", t))
}

// slice returns x[lo:hi:max].  Any of lo, hi and max may be nil.
func slice(x, lo, hi, max value) value {
	var Len, Cap int
	switch x := x.(type) {
	case string:
		Len = len(x)
	case []value:
		Len = len(x)
		Cap = cap(x)
	case *value: // *array
		a := (*x).(array)
		Len = len(a)
		Cap = cap(a)
	}

	l := int64(0)
	if lo != nil {
		l = asInt64(lo)
	}

	h := int64(Len)
	if hi != nil {
		h = asInt64(hi)
	}

	m := int64(Cap)
	if max != nil {
		m = asInt64(max)
	}

	switch x := x.(type) {
	case string:
		return x[l:h]
	case []value:
		return x[l:h:m]
	case *value: // *array
		a := (*x).(array)
		return []value(a)[l:h:m]
	}
	panic(fmt.Sprintf("slice: unexpected X type: %T", x))
}

// lookup returns x[idx] where x is a map.
func lookup(instr *ssa.Lookup, x, idx value) value {
	if isSym(idx) {
		panic(engineError{"symbolic map key in lookup"})
	}
	lsMapAccess(x, false)
	switch x := x.(type) { // map or string
	case map[value]value, *hashmap:
		var v value
		var ok bool
		switch x := x.(type) {
		case map[value]value:
			v, ok = x[idx]
		case *hashmap:
			v = x.lookup(idx.(hashable))
			ok = v != nil
		}
		if !ok {
			v = zero(instr.X.Type().Underlying().(*types.Map).Elem())
		}
		if instr.CommaOk {
			v = tuple{v, ok}
		}
		return v
	}
	panic(fmt.Sprintf("unexpected x type in Lookup: %T", x))
}

// binop implements all arithmetic and logical binary operators for
// numeric datatypes and strings.  Both operands must have identical
// dynamic type.
func binop(op token.Token, t types.Type, x, y value) value {
	if isSym(x) || isSym(y) {
		return symBinop(op, t, x, y)
	}
	switch op {
	case token.ADD:
		switch x.(type) {
		case int:
			return x.(int) + y.(int)
		case int8:
			return x.(int8) + y.(int8)
		case int16:
			return x.(int16) + y.(int16)
		case int32:
			return x.(int32) + y.(int32)
		case int64:
			return x.(int64) + y.(int64)
		case uint:
			return x.(uint) + y.(uint)
		case uint8:
			return x.(uint8) + y.(uint8)
		case uint16:
			return x.(uint16) + y.(uint16)
		case uint32:
			return x.(uint32) + y.(uint32)
		case uint64:
			return x.(uint64) + y.(uint64)
		case uintptr:
			return x.(uintptr) + y.(uintptr)
		case float32:
			return x.(float32) + y.(float32)
		case float64:
			return x.(float64) + y.(float64)
		case complex64:
			return x.(complex64) + y.(complex64)
		case complex128:
			return x.(complex128) + y.(complex128)
		case string:
			return x.(string) + y.(string)
		}

	case token.SUB:
		switch x.(type) {
		case int:
			return x.(int) - y.(int)
		case int8:
			return x.(int8) - y.(int8)
		case int16:
			return x.(int16) - y.(int16)
		case int32:
			return x.(int32) - y.(int32)
		case int64:
			return x.(int64) - y.(int64)
		case uint:
			return x.(uint) - y.(uint)
		case uint8:
			return x.(uint8) - y.(uint8)
		case uint16:
			return x.(uint16) - y.(uint16)
		case uint32:
			return x.(uint32) - y.(uint32)
		case uint64:
			return x.(uint64) - y.(uint64)
		case uintptr:
			return x.(uintptr) - y.(uintptr)
		case float32:
			return x.(float32) - y.(float32)
		case float64:
			return x.(float64) - y.(float64)
		case complex64:
			return x.(complex64) - y.(complex64)
		case complex128:
			return x.(complex128) - y.(complex128)
		}

	case token.MUL:
		switch x.(type) {
		case int:
			return x.(int) * y.(int)
		case int8:
			return x.(int8) * y.(int8)
		case int16:
			return x.(int16) * y.(int16)
		case int32:
			return x.(int32) * y.(int32)
		case int64:
			return x.(int64) * y.(int64)
		case uint:
			return x.(uint) * y.(uint)
		case uint8:
			return x.(uint8) * y.(uint8)
		case uint16:
			return x.(uint16) * y.(uint16)
		case uint32:
			return x.(uint32) * y.(uint32)
		case uint64:
			return x.(uint64) * y.(uint64)
		case uintptr:
			return x.(uintptr) * y.(uintptr)
		case float32:
			return x.(float32) * y.(float32)
		case float64:
			return x.(float64) * y.(float64)
		case complex64:
			return x.(complex64) * y.(complex64)
		case complex128:
			return x.(complex128) * y.(complex128)
		}

	case token.QUO:
		switch x.(type) {
		case int:
			return x.(int) / y.(int)
		case int8:
			return x.(int8) / y.(int8)
		case int16:
			return x.(int16) / y.(int16)
		case int32:
			return x.(int32) / y.(int32)
		case int64:
			return x.(int64) / y.(int64)
		case uint:
			return x.(uint) / y.(uint)
		case uint8:
			return x.(uint8) / y.(uint8)
		case uint16:
			return x.(uint16) / y.(uint16)
		case uint32:
			return x.(uint32) / y.(uint32)
		case uint64:
			return x.(uint64) / y.(uint64)
		case uintptr:
			return x.(uintptr) / y.(uintptr)
		case float32:
			return x.(float32) / y.(float32)
		case float64:
			return x.(float64) / y.(float64)
		case complex64:
			return x.(complex64) / y.(complex64)
		case complex128:
			return x.(complex128) / y.(complex128)
		}

	case token.REM:
		switch x.(type) {
		case int:
			return x.(int) % y.(int)
		case int8:
			return x.(int8) % y.(int8)
		case int16:
			return x.(int16) % y.(int16)
		case int32:
			return x.(int32) % y.(int32)
		case int64:
			return x.(int64) % y.(int64)
		case uint:
			return x.(uint) % y.(uint)
		case uint8:
			return x.(uint8) % y.(uint8)
		case uint16:
			return x.(uint16) % y.(uint16)
		case uint32:
			return x.(uint32) % y.(uint32)
		case uint64:
			return x.(uint64) % y.(uint64)
		case uintptr:
			return x.(uintptr) % y.(uintptr)
		}

	case token.AND:
		switch x.(type) {
		case int:
			return x.(int) & y.(int)
		case int8:
			return x.(int8) & y.(int8)
		case int16:
			return x.(int16) & y.(int16)
		case int32:
			return x.(int32) & y.(int32)
		case int64:
			return x.(int64) & y.(int64)
		case uint:
			return x.(uint) & y.(uint)
		case uint8:
			return x.(uint8) & y.(uint8)
		case uint16:
			return x.(uint16) & y.(uint16)
		case uint32:
			return x.(uint32) & y.(uint32)
		case uint64:
			return x.(uint64) & y.(uint64)
		case uintptr:
			return x.(uintptr) & y.(uintptr)
		}

	case token.OR:
		switch x.(type) {
		case int:
			return x.(int) | y.(int)
		case int8:
			return x.(int8) | y.(int8)
		case int16:
			return x.(int16) | y.(int16)
		case int32:
			return x.(int32) | y.(int32)
		case int64:
			return x.(int64) | y.(int64)
		case uint:
			return x.(uint) | y.(uint)
		case uint8:
			return x.(uint8) | y.(uint8)
		case uint16:
			return x.(uint16) | y.(uint16)
		case uint32:
			return x.(uint32) | y.(uint32)
		case uint64:
			return x.(uint64) | y.(uint64)
		case uintptr:
			return x.(uintptr) | y.(uintptr)
		}

	case token.XOR:
		switch x.(type) {
		case int:
			return x.(int) ^ y.(int)
		case int8:
			return x.(int8) ^ y.(int8)
		case int16:
			return x.(int16) ^ y.(int16)
		case int32:
			return x.(int32) ^ y.(int32)
		case int64:
			return x.(int64) ^ y.(int64)
		case uint:
			return x.(uint) ^ y.(uint)
		case uint8:
			return x.(uint8) ^ y.(uint8)
		case uint16:
			return x.(uint16) ^ y.(uint16)
		case uint32:
			return x.(uint32) ^ y.(uint32)
		case uint64:
			return x.(uint64) ^ y.(uint64)
		case uintptr:
			return x.(uintptr) ^ y.(uintptr)
		}

	case token.AND_NOT:
		switch x.(type) {
		case int:
			return x.(int) &^ y.(int)
		case int8:
			return x.(int8) &^ y.(int8)
		case int16:
			return x.(int16) &^ y.(int16)
		case int32:
			return x.(int32) &^ y.(int32)
		case int64:
			return x.(int64) &^ y.(int64)
		case uint:
			return x.(uint) &^ y.(uint)
		case uint8:
			return x.(uint8) &^ y.(uint8)
		case uint16:
			return x.(uint16) &^ y.(uint16)
		case uint32:
			return x.(uint32) &^ y.(uint32)
		case uint64:
			return x.(uint64) &^ y.(uint64)
		case uintptr:
			return x.(uintptr) &^ y.(uintptr)
		}

	case token.SHL:
		u, ok := asUnsigned(y)
		if !ok {
			panic("negative shift amount")
		}
		y := asUint64(u)
		switch x.(type) {
		case int:
			return x.(int) << y
		case int8:
			return x.(int8) << y
		case int16:
			return x.(int16) << y
		case int32:
			return x.(int32) << y
		case int64:
			return x.(int64) << y
		case uint:
			return x.(uint) << y
		case uint8:
			return x.(uint8) << y
		case uint16:
			return x.(uint16) << y
		case uint32:
			return x.(uint32) << y
		case uint64:
			return x.(uint64) << y
		case uintptr:
			return x.(uintptr) << y
		}

	case token.SHR:
		u, ok := asUnsigned(y)
		if !ok {
			panic("negative shift amount")
		}
		y := asUint64(u)
		switch x.(type) {
		case int:
			return x.(int) >> y
		case int8:
			return x.(int8) >> y
		case int16:
			return x.(int16) >> y
		case int32:
			return x.(int32) >> y
		case int64:
			return x.(int64) >> y
		case uint:
			return x.(uint) >> y
		case uint8:
			return x.(uint8) >> y
		case uint16:
			return x.(uint16) >> y
		case uint32:
			return x.(uint32) >> y
		case uint64:
			return x.(uint64) >> y
		case uintptr:
			return x.(uintptr) >> y
		}

	case token.LSS:
		switch x.(type) {
		case int:
			return x.(int) < y.(int)
		case int8:
			return x.(int8) < y.(int8)
		case int16:
			return x.(int16) < y.(int16)
		case int32:
			return x.(int32) < y.(int32)
		case int64:
			return x.(int64) < y.(int64)
		case uint:
			return x.(uint) < y.(uint)
		case uint8:
			return x.(uint8) < y.(uint8)
		case uint16:
			return x.(uint16) < y.(uint16)
		case uint32:
			return x.(uint32) < y.(uint32)
		case uint64:
			return x.(uint64) < y.(uint64)
		case uintptr:
			return x.(uintptr) < y.(uintptr)
		case float32:
			return x.(float32) < y.(float32)
		case float64:
			return x.(float64) < y.(float64)
		case string:
			return x.(string) < y.(string)
		}

	case token.LEQ:
		switch x.(type) {
		case int:
			return x.(int) <= y.(int)
		case int8:
			return x.(int8) <= y.(int8)
		case int16:
			return x.(int16) <= y.(int16)
		case int32:
			return x.(int32) <= y.(int32)
		case int64:
			return x.(int64) <= y.(int64)
		case uint:
			return x.(uint) <= y.(uint)
		case uint8:
			return x.(uint8) <= y.(uint8)
		case uint16:
			return x.(uint16) <= y.(uint16)
		case uint32:
			return x.(uint32) <= y.(uint32)
		case uint64:
			return x.(uint64) <= y.(uint64)
		case uintptr:
			return x.(uintptr) <= y.(uintptr)
		case float32:
			return x.(float32) <= y.(float32)
		case float64:
			return x.(float64) <= y.(float64)
		case string:
			return x.(string) <= y.(string)
		}

	case token.EQL:
		return eqnil(t, x, y)

	case token.NEQ:
		return !eqnil(t, x, y)

	case token.GTR:
		switch x.(type) {
		case int:
			return x.(int) > y.(int)
		case int8:
			return x.(int8) > y.(int8)
		case int16:
			return x.(int16) > y.(int16)
		case int32:
			return x.(int32) > y.(int32)
		case int64:
			return x.(int64) > y.(int64)
		case uint:
			return x.(uint) > y.(uint)
		case uint8:
			return x.(uint8) > y.(uint8)
		case uint16:
			return x.(uint16) > y.(uint16)
		case uint32:
			return x.(uint32) > y.(uint32)
		case uint64:
			return x.(uint64) > y.(uint64)
		case uintptr:
			return x.(uintptr) > y.(uintptr)
		case float32:
			return x.(float32) > y.(float32)
		case float64:
			return x.(float64) > y.(float64)
		case string:
			return x.(string) > y.(string)
		}

	case token.GEQ:
		switch x.(type) {
		case int:
			return x.(int) >= y.(int)
		case int8:
			return x.(int8) >= y.(int8)
		case int16:
			return x.(int16) >= y.(int16)
		case int32:
			return x.(int32) >= y.(int32)
		case int64:
			return x.(int64) >= y.(int64)
		case uint:
			return x.(uint) >= y.(uint)
		case uint8:
			return x.(uint8) >= y.(uint8)
		case uint16:
			return x.(uint16) >= y.(uint16)
		case uint32:
			return x.(uint32) >= y.(uint32)
		case uint64:
			return x.(uint64) >= y.(uint64)
		case uintptr:
			return x.(uintptr) >= y.(uintptr)
		case float32:
			return x.(float32) >= y.(float32)
		case float64:
			return x.(float64) >= y.(float64)
		case string:
			return x.(string) >= y.(string)
		}
	}
	panic(fmt.Sprintf("invalid binary op: %T %s %T", x, op, y))
}

// eqnil returns the comparison x == y using the equivalence relation
// appropriate for type t.
// If t is a reference type, at most one of x or y may be a nil value
// of that type.
func eqnil(t types.Type, x, y value) bool {
	switch t.Underlying().(type) {
	case *types.Map, *types.Signature, *types.Slice:
		// Since these types don't support comparison,
		// one of the operands must be a literal nil.
		switch x := x.(type) {
		case *hashmap:
			return (x != nil) == (y.(*hashmap) != nil)
		case map[value]value:
			return (x != nil) == (y.(map[value]value) != nil)
		case *ssa.Function:
			switch y := y.(type) {
			case *ssa.Function:
				return (x != nil) == (y != nil)
			case *closure:
				return true
			}
		case *closure:
			return (x != nil) == (y.(*ssa.Function) != nil)
		case []value:
			return (x != nil) == (y.([]value) != nil)
		}
		panic(fmt.Sprintf("eqnil(%s): illegal dynamic type: %T", t, x))
	}

	return equals(t, x, y)
}

func unop(instr *ssa.UnOp, x value) value {
	if _, ok := x.(*Sym); ok {
		return symUnop(instr.Op, x)
	}
	switch instr.Op {
	case token.ARROW: // receive
		return chanRecv(x, instr.X.Type().Underlying().(*types.Chan).Elem(), instr.CommaOk)
		var v value
		ok := false
		if !ok {
			v = zero(instr.X.Type().Underlying().(*types.Chan).Elem())
		}
		if instr.CommaOk {
			v = tuple{v, ok}
		}
		return v
	case token.SUB:
		switch x := x.(type) {
		case int:
			return -x
		case int8:
			return -x
		case int16:
			return -x
		case int32:
			return -x
		case int64:
			return -x
		case uint:
			return -x
		case uint8:
			return -x
		case uint16:
			return -x
		case uint32:
			return -x
		case uint64:
			return -x
		case uintptr:
			return -x
		case float32:
			return -x
		case float64:
			return -x
		case complex64:
			return -x
		case complex128:
			return -x
		}
	case token.MUL:
		return load(mustDeref(instr.X.Type()), x.(*value))
	case token.NOT:
		return !x.(bool)
	case token.XOR:
		switch x := x.(type) {
		case int:
			return ^x
		case int8:
			return ^x
		case int16:
			return ^x
		case int32:
			return ^x
		case int64:
			return ^x
		case uint:
			return ^x
		case uint8:
			return ^x
		case uint16:
			return ^x
		case uint32:
			return ^x
		case uint64:
			return ^x
		case uintptr:
			return ^x
		}
	}
	panic(fmt.Sprintf("invalid unary op %s %T", instr.Op, x))
}

// typeAssert checks whether dynamic type of itf is instr.AssertedType.
// It returns the extracted value on success, and panics on failure,
// unless instr.CommaOk, in which case it always returns a "value,ok" tuple.
func typeAssert(i *interpreter, instr *ssa.TypeAssert, itf iface) value {
	var v value
	err := ""
	if itf.t == nil {
		err = fmt.Sprintf("interface conversion: interface is nil, not %s", instr.AssertedType)

	} else if idst, ok := instr.AssertedType.Underlying().(*types.Interface); ok {
		v = itf
		err = checkInterface(i, idst, itf)

	} else if types.Identical(itf.t, instr.AssertedType) {
		v = itf.v // extract value

	} else {
		err = fmt.Sprintf("interface conversion: interface is %s, not %s", itf.t, instr.AssertedType)
	}
	// Note: if instr.Underlying==true ever becomes reachable from interp check that
	// types.Identical(itf.t.Underlying(), instr.AssertedType)

	if err != "" {
		if !instr.CommaOk {
			panic(err)
		}
		return tuple{zero(instr.AssertedType), false}
	}
	if instr.CommaOk {
		return tuple{v, true}
	}
	return v
}

// This variable is no longer used but remains to prevent build breakage.
var CapturedOutput *bytes.Buffer

// callBuiltin interprets a call to builtin fn with arguments args,
// returning its result.
func callBuiltin(caller *frame, callpos token.Pos, fn *ssa.Builtin, args []value) value {
	switch fn.Name() {
	case "append":
		if len(args) == 1 {
			return args[0]
		}
		if s, ok := args[1].(string); ok {
			// append([]byte, ...string) []byte
			arg0 := args[0].([]value)
			for i := 0; i < len(s); i++ {
				arg0 = append(arg0, s[i])
			}
			return arg0
		}
		// append([]T, ...[]T) []T
		return append(args[0].([]value), args[1].([]value)...)

	case "copy": // copy([]T, []T) int or copy([]byte, string) int
		src := args[1]
		if _, ok := src.(string); ok {
			params := fn.Type().(*types.Signature).Params()
			src = conv(params.At(0).Type(), params.At(1).Type(), src)
		}
		return copy(args[0].([]value), src.([]value))

	case "close": // close(chan T)
		chanClose(caller, args[0])
		return nil

	case "clear": // clear(map[K]V) or clear([]T)
		switch m := args[0].(type) {
		case map[value]value:
			lsMapAccess(args[0], true)
			for k := range m {
				delete(m, k)
			}
		case *hashmap:
			lsMapAccess(args[0], true)
			if m != nil {
				m.table = make(map[int]*entry)
				m.length = 0
			}
		case []value:
			if len(m) > 0 {
				et := fn.Type().(*types.Signature).Params().At(0).Type().Underlying().(*types.Slice).Elem()
				for i := range m {
					m[i] = zero(et)
				}
			}
		default:
			panic(fmt.Sprintf("clear: illegal operand type: %T", m))
		}
		return nil

	case "delete": // delete(map[K]value, K)
		lsMapAccess(args[0], true)
		switch m := args[0].(type) {
		case map[value]value:
			delete(m, args[1])
		case *hashmap:
			m.delete(args[1].(hashable))
		default:
			panic(fmt.Sprintf("illegal map type: %T", m))
		}
		return nil

	case "print", "println": // print(any, ...)
		ln := fn.Name() == "println"
		var buf bytes.Buffer
		for i, arg := range args {
			if i > 0 && ln {
				buf.WriteRune(' ')
			}
			buf.WriteString(toString(arg))
		}
		if ln {
			buf.WriteRune('\n')
		}
		os.Stderr.Write(buf.Bytes())
		return nil

	case "len":
		switch x := args[0].(type) {
		case string:
			return len(x)
		case array:
			return len(x)
		case *value:
			return len((*x).(array))
		case []value:
			return len(x)
		case map[value]value:
			return len(x)
		case *hashmap:
			return x.len()
		case *vchan:
			return len(x.buf)
		default:
			panic(fmt.Sprintf("len: illegal operand: %T", x))
		}

	case "cap":
		switch x := args[0].(type) {
		case array:
			return cap(x)
		case *value:
			return cap((*x).(array))
		case []value:
			return cap(x)
		case *vchan:
			return x.cap
		default:
			panic(fmt.Sprintf("cap: illegal operand: %T", x))
		}

	case "min":
		return foldLeft(min, args)
	case "max":
		return foldLeft(max, args)

	case "real":
		switch c := args[0].(type) {
		case complex64:
			return real(c)
		case complex128:
			return real(c)
		default:
			panic(fmt.Sprintf("real: illegal operand: %T", c))
		}

	case "imag":
		switch c := args[0].(type) {
		case complex64:
			return imag(c)
		case complex128:
			return imag(c)
		default:
			panic(fmt.Sprintf("imag: illegal operand: %T", c))
		}

	case "complex":
		switch f := args[0].(type) {
		case float32:
			return complex(f, args[1].(float32))
		case float64:
			return complex(f, args[1].(float64))
		default:
			panic(fmt.Sprintf("complex: illegal operand: %T", f))
		}

	case "panic":
		// ssa.Panic handles most cases; this is only for "go
		// panic" or "defer panic".
		panic(targetPanic{args[0]})

	case "recover":
		return doRecover(caller)

	case "ssa:wrapnilchk":
		recv := args[0]
		if recv.(*value) == nil {
			recvType := args[1]
			methodName := args[2]
			panic(fmt.Sprintf("value method (%s).%s called using nil *%s pointer",
				recvType, methodName, recvType))
		}
		return recv

	case "ssa:deferstack":
		return &caller.defers
	}

	panic("unknown built-in: " + fn.Name())
}

func rangeIter(x value, t types.Type) iter {
	lsMapAccess(x, false)
	switch x := x.(type) {
	case map[value]value:
		return newSortedMapIter(x)
	case *hashmap:
		return newSortedHashmapIter(x)
	case string:
		return &stringIter{Reader: strings.NewReader(x)}
	}
	panic(fmt.Sprintf("cannot range over %T", x))
}

// widen widens a basic typed value x to the widest type of its
// category, one of:
//
//	bool, int64, uint64, float64, complex128, string.
//
// This is inefficient but reduces the size of the cross-product of
// cases we have to consider.
func widen(x value) value {
	switch y := x.(type) {
	case bool, int64, uint64, float64, complex128, string, unsafe.Pointer:
		return x
	case int:
		return int64(y)
	case int8:
		return int64(y)
	case int16:
		return int64(y)
	case int32:
		return int64(y)
	case uint:
		return uint64(y)
	case uint8:
		return uint64(y)
	case uint16:
		return uint64(y)
	case uint32:
		return uint64(y)
	case uintptr:
		return uint64(y)
	case float32:
		return float64(y)
	case complex64:
		return complex128(y)
	}
	panic(fmt.Sprintf("cannot widen %T", x))
}

// conv converts the value x of type t_src to type t_dst and returns
// the result.
// Possible cases are described with the ssa.Convert operator.
func conv(t_dst, t_src types.Type, x value) value {
	if sx, ok := x.(*Sym); ok {
		return symConv(kindOfType(t_dst), sx)
	}
	ut_src := t_src.Underlying()
	ut_dst := t_dst.Underlying()

	// Destination type is not an "untyped" type.
	if b, ok := ut_dst.(*types.Basic); ok && b.Info()&types.IsUntyped != 0 {
		panic("oops: conversion to 'untyped' type: " + b.String())
	}

	// Nor is it an interface type.
	if _, ok := ut_dst.(*types.Interface); ok {
		if _, ok := ut_src.(*types.Interface); ok {
			panic("oops: Convert should be ChangeInterface")
		} else {
			panic("oops: Convert should be MakeInterface")
		}
	}

	// Remaining conversions:
	//    + untyped string/number/bool constant to a specific
	//      representation.
	//    + conversions between non-complex numeric types.
	//    + conversions between complex numeric types.
	//    + integer/[]byte/[]rune -> string.
	//    + string -> []byte/[]rune.
	//
	// All are treated the same: first we extract the value to the
	// widest representation (int64, uint64, float64, complex128,
	// or string), then we convert it to the desired type.

	switch ut_src := ut_src.(type) {
	case *types.Pointer:
		switch ut_dst := ut_dst.(type) {
		case *types.Basic:
			// *value to unsafe.Pointer?
			if ut_dst.Kind() == types.UnsafePointer {
				return unsafe.Pointer(x.(*value))
			}
		}

	case *types.Slice:
		// []byte or []rune -> string
		switch ut_src.Elem().Underlying().(*types.Basic).Kind() {
		case types.Byte:
			x := x.([]value)
			b := make([]byte, 0, len(x))
			for i := range x {
				b = append(b, x[i].(byte))
			}
			return string(b)

		case types.Rune:
			x := x.([]value)
			r := make([]rune, 0, len(x))
			for i := range x {
				r = append(r, x[i].(rune))
			}
			return string(r)
		}

	case *types.Basic:
		x = widen(x)

		// integer -> string?
		if ut_src.Info()&types.IsInteger != 0 {
			if ut_dst, ok := ut_dst.(*types.Basic); ok && ut_dst.Kind() == types.String {
				return fmt.Sprintf("%c", x)
			}
		}

		// string -> []rune, []byte or string?
		if s, ok := x.(string); ok {
			switch ut_dst := ut_dst.(type) {
			case *types.Slice:
				var res []value
				switch ut_dst.Elem().Underlying().(*types.Basic).Kind() {
				case types.Rune:
					for _, r := range []rune(s) {
						res = append(res, r)
					}
					return res
				case types.Byte:
					for _, b := range []byte(s) {
						res = append(res, b)
					}
					return res
				}
			case *types.Basic:
				if ut_dst.Kind() == types.String {
					return x.(string)
				}
			}
			break // fail: no other conversions for string
		}

		// unsafe.Pointer -> *value
		if ut_src.Kind() == types.UnsafePointer {
			// TODO(adonovan): this is wrong and cannot
			// really be fixed with the current design.
			//
			// return (*value)(x.(unsafe.Pointer))
			// creates a new pointer of a different
			// type but the underlying interface value
			// knows its "true" type and so cannot be
			// meaningfully used through the new pointer.
			//
			// To make this work, the interpreter needs to
			// simulate the memory layout of a real
			// compiled implementation.
			//
			// To at least preserve type-safety, we'll
			// just return the zero value of the
			// destination type.
			return zero(t_dst)
		}

		// Conversions between complex numeric types?
		if ut_src.Info()&types.IsComplex != 0 {
			switch ut_dst.(*types.Basic).Kind() {
			case types.Complex64:
				return complex64(x.(complex128))
			case types.Complex128:
				return x.(complex128)
			}
			break // fail: no other conversions for complex
		}

		// Conversions between non-complex numeric types?
		if ut_src.Info()&types.IsNumeric != 0 {
			kind := ut_dst.(*types.Basic).Kind()
			switch x := x.(type) {
			case int64: // signed integer -> numeric?
				switch kind {
				case types.Int:
					return int(x)
				case types.Int8:
					return int8(x)
				case types.Int16:
					return int16(x)
				case types.Int32:
					return int32(x)
				case types.Int64:
					return int64(x)
				case types.Uint:
					return uint(x)
				case types.Uint8:
					return uint8(x)
				case types.Uint16:
					return uint16(x)
				case types.Uint32:
					return uint32(x)
				case types.Uint64:
					return uint64(x)
				case types.Uintptr:
					return uintptr(x)
				case types.Float32:
					return float32(x)
				case types.Float64:
					return float64(x)
				}

			case uint64: // unsigned integer -> numeric?
				switch kind {
				case types.Int:
					return int(x)
				case types.Int8:
					return int8(x)
				case types.Int16:
					return int16(x)
				case types.Int32:
					return int32(x)
				case types.Int64:
					return int64(x)
				case types.Uint:
					return uint(x)
				case types.Uint8:
					return uint8(x)
				case types.Uint16:
					return uint16(x)
				case types.Uint32:
					return uint32(x)
				case types.Uint64:
					return uint64(x)
				case types.Uintptr:
					return uintptr(x)
				case types.Float32:
					return float32(x)
				case types.Float64:
					return float64(x)
				}

			case float64: // floating point -> numeric?
				switch kind {
				case types.Int:
					return int(x)
				case types.Int8:
					return int8(x)
				case types.Int16:
					return int16(x)
				case types.Int32:
					return int32(x)
				case types.Int64:
					return int64(x)
				case types.Uint:
					return uint(x)
				case types.Uint8:
					return uint8(x)
				case types.Uint16:
					return uint16(x)
				case types.Uint32:
					return uint32(x)
				case types.Uint64:
					return uint64(x)
				case types.Uintptr:
					return uintptr(x)
				case types.Float32:
					return float32(x)
				case types.Float64:
					return float64(x)
				}
			}
		}
	}

	panic(fmt.Sprintf("unsupported conversion: %s  -> %s, dynamic type %T", t_src, t_dst, x))
}

// sliceToArrayPointer converts the value x of type slice to type t_dst
// a pointer to array and returns the result.
func sliceToArrayPointer(t_dst, t_src types.Type, x value) value {
	if _, ok := t_src.Underlying().(*types.Slice); ok {
		if ptr, ok := t_dst.Underlying().(*types.Pointer); ok {
			if arr, ok := ptr.Elem().Underlying().(*types.Array); ok {
				x := x.([]value)
				if arr.Len() > int64(len(x)) {
					panic("array length is greater than slice length")
				}
				if x == nil {
					return zero(t_dst)
				}
				v := value(array(x[:arr.Len()]))
				return &v
			}
		}
	}

	panic(fmt.Sprintf("unsupported conversion: %s  -> %s, dynamic type %T", t_src, t_dst, x))
}

// checkInterface checks that the method set of x implements the
// interface itype.
// On success it returns "", on failure, an error message.
func checkInterface(i *interpreter, itype *types.Interface, x iface) string {
	if meth, _ := types.MissingMethod(x.t, itype, true); meth != nil {
		return fmt.Sprintf("interface conversion: %v is not %v: missing method %s",
			x.t, itype, meth.Name())
	}
	return "" // ok
}

func foldLeft(op func(value, value) value, args []value) value {
	x := args[0]
	for _, arg := range args[1:] {
		x = op(x, arg)
	}
	return x
}

func min(x, y value) value {
	switch x := x.(type) {
	case float32:
		return fmin(x, y.(float32))
	case float64:
		return fmin(x, y.(float64))
	}

	// return (y < x) ? y : x
	if binop(token.LSS, nil, y, x).(bool) {
		return y
	}
	return x
}

func max(x, y value) value {
	switch x := x.(type) {
	case float32:
		return fmax(x, y.(float32))
	case float64:
		return fmax(x, y.(float64))
	}

	// return (y > x) ? y : x
	if binop(token.GTR, nil, y, x).(bool) {
		return y
	}
	return x
}

// copied from $GOROOT/src/runtime/minmax.go

type floaty interface{ ~float32 | ~float64 }

func fmin[F floaty](x, y F) F {
	if y != y || y < x {
		return y
	}
	if x != x || x < y || x != 0 {
		return x
	}
	// x and y are both ±0
	// if either is -0, return -0; else return +0
	return forbits(x, y)
}

func fmax[F floaty](x, y F) F {
	if y != y || y > x {
		return y
	}
	if x != x || x > y || x != 0 {
		return x
	}
	// x and y are both ±0
	// if both are -0, return -0; else return +0
	return fandbits(x, y)
}

func forbits[F floaty](x, y F) F {
	switch unsafe.Sizeof(x) {
	case 4:
		*(*uint32)(unsafe.Pointer(&x)) |= *(*uint32)(unsafe.Pointer(&y))
	case 8:
		*(*uint64)(unsafe.Pointer(&x)) |= *(*uint64)(unsafe.Pointer(&y))
	}
	return x
}

func fandbits[F floaty](x, y F) F {
	switch unsafe.Sizeof(x) {
	case 4:
		*(*uint32)(unsafe.Pointer(&x)) &= *(*uint32)(unsafe.Pointer(&y))
	case 8:
		*(*uint64)(unsafe.Pointer(&x)) &= *(*uint64)(unsafe.Pointer(&y))
	}
	return x
}
