// Copyright 2013 The Go Authors. All rights reserved.
// Use of this source code is governed by a BSD-style
// license that can be found in the LICENSE file.

// Package ssa/interp defines an interpreter for the SSA
// representation of Go programs.
//
// This interpreter is provided as an adjunct for testing the SSA
// construction algorithm.  Its purpose is to provide a minimal
// metacircular implementation of the dynamic semantics of each SSA
// instruction.  It is not, and will never be, a production-quality Go
// interpreter.
//
// The following is a partial list of Go features that are currently
// unsupported or incomplete in the interpreter.
//
// * Unsafe operations, including all uses of unsafe.Pointer, are
// impossible to support given the "boxed" value representation we
// have chosen.
//
// * The reflect package is only partially implemented.
//
// * The "testing" package is no longer supported because it
// depends on low-level details that change too often.
//
// * "sync/atomic" operations are not atomic due to the "boxed" value
// representation: it is not possible to read, modify and write an
// interface value atomically. As a consequence, Mutexes are currently
// broken.
//
// * recover is only partially implemented.  Also, the interpreter
// makes no attempt to distinguish target panics from interpreter
// crashes.
//
// * the sizes of the int, uint and uintptr types in the target
// program are assumed to be the same as those of the interpreter
// itself.
//
// * all values occupy space, even those of types defined by the spec
// to have zero size, e.g. struct{}.  This can cause asymptotic
// performance degradation.
//
// * os.Exit is implemented using panic, causing deferred functions to
// run.
package interp

import (
	"fmt"
	"go/token"
	"go/types"
	"log"
	"os"
	"runtime"
	"slices"
	_ "unsafe"

	"golang.org/x/tools/go/ssa"
)

type continuation int

const (
	kNext continuation = iota
	kReturn
	kJump
)

// Mode is a bitmask of options affecting the interpreter.
type Mode uint

const (
	DisableRecover Mode = 1 << iota // Disable recover() in target programs; show interpreter crash instead.
	EnableTracing                   // Print a trace of all instructions as they are interpreted.
)

type methodSet map[string]*ssa.Function

// State shared between all interpreted goroutines.
type interpreter struct {
	osArgs             []value                // the value of os.Args
	prog               *ssa.Program           // the SSA program
	globals            map[*ssa.Global]*value // addresses of global variables (immutable)
	mode               Mode                   // interpreter options
	reflectPackage     *ssa.Package           // the fake reflect package
	errorMethods       methodSet              // the method set of reflect.error, which implements the error interface.
	rtypeMethods       methodSet              // the method set of rtype, which implements the reflect.Type interface.
	runtimeErrorString types.Type             // the runtime.errorString type
	sizes              types.Sizes            // the effective type-sizing function
	goroutines         int32                  // atomically updated
}

type deferred struct {
	fn    value
	args  []value
	instr *ssa.Defer
	tail  *deferred
}

type frame struct {
	i                *interpreter
	caller           *frame
	fn               *ssa.Function
	block, prevBlock *ssa.BasicBlock
	env              map[ssa.Value]value // dynamic values of SSA variables
	locals           []value
	defers           *deferred
	result           value
	panicking        bool
	panic            interface{}
	phitemps         []value // temporaries for parallel phi assignment
	skipPhis         bool    // phis of fr.block were already assigned by if-conversion
}

func (fr *frame) get(key ssa.Value) value {
	switch key := key.(type) {
	case nil:
		// Hack; simplifies handling of optional attributes
		// such as ssa.Slice.{Low,High}.
		return nil
	case *ssa.Function, *ssa.Builtin:
		return key
	case *ssa.Const:
		return constValue(key)
	case *ssa.Global:
		if r, ok := fr.i.globals[key]; ok {
			return r
		}
	}
	if r, ok := fr.env[key]; ok {
		return r
	}
	panic(fmt.Sprintf("get: no value for %T: %v", key, key.Name()))
}

// runDefer runs a deferred call d.
// It always returns normally, but may set or clear fr.panic.
func (fr *frame) runDefer(d *deferred) {
	if fr.i.mode&EnableTracing != 0 {
		fmt.Fprintf(os.Stderr, "%s: invoking deferred function call\n",
			fr.i.prog.Fset.Position(d.instr.Pos()))
	}
	var ok bool
	defer func() {
		if !ok {
			// Deferred call created a new state of panic.
			fr.panicking = true
			fr.panic = recover()
			switch fr.panic.(type) {
			case pathAbort, engineError, threadKill, fsCrash:
				panic(fr.panic)
			}
		}
	}()
	call(fr.i, fr, d.instr.Pos(), d.fn, d.args)
	ok = true
}

// runDefers executes fr's deferred function calls in LIFO order.
//
// On entry, fr.panicking indicates a state of panic; if
// true, fr.panic contains the panic value.
//
// On completion, if a deferred call started a panic, or if no
// deferred call recovered from a previous state of panic, then
// runDefers itself panics after the last deferred call has run.
//
// If there was no initial state of panic, or it was recovered from,
// runDefers returns normally.
func (fr *frame) runDefers() {
	for d := fr.defers; d != nil; d = d.tail {
		fr.runDefer(d)
	}
	fr.defers = nil
	if fr.panicking {
		panic(fr.panic) // new panic, or still panicking
	}
}

// lookupMethod returns the method set for type typ, which may be one
// of the interpreter's fake types.
func lookupMethod(i *interpreter, typ types.Type, meth *types.Func) *ssa.Function {
	switch typ {
	case rtypeType:
		return i.rtypeMethods[meth.Id()]
	case errorType:
		return i.errorMethods[meth.Id()]
	}
	return i.prog.LookupMethod(typ, meth.Pkg(), meth.Name())
}

// visitInstr interprets a single ssa.Instruction within the activation
// record frame.  It returns a continuation value indicating where to
// read the next instruction from.
func visitInstr(fr *frame, instr ssa.Instruction) continuation {
	switch instr := instr.(type) {
	case *ssa.DebugRef:
		// no-op

	case *ssa.UnOp:
		fr.env[instr] = unop(instr, fr.get(instr.X))

	case *ssa.BinOp:
		x, y := fr.get(instr.X), fr.get(instr.Y)
		if (instr.Op == token.QUO || instr.Op == token.REM) && isSym(y) && !isFloatK(kindOfValue(y)) {
			if asBool(symBinop(token.EQL, nil, y, concreteOfBits(kindOfValue(y), 0))) {
				panic(targetPanic{iface{fr.i.runtimeErrorString, "integer divide by zero"}})
			}
		}
		fr.env[instr] = binop(instr.Op, instr.X.Type(), x, y)

	case *ssa.Call:
		fn, args := prepareCall(fr, &instr.Call)
		fr.env[instr] = call(fr.i, fr, instr.Pos(), fn, args)

	case *ssa.ChangeInterface:
		fr.env[instr] = fr.get(instr.X)

	case *ssa.ChangeType:
		fr.env[instr] = fr.get(instr.X) // (can't fail)

	case *ssa.Convert:
		fr.env[instr] = conv(instr.Type(), instr.X.Type(), fr.get(instr.X))

	case *ssa.SliceToArrayPointer:
		fr.env[instr] = sliceToArrayPointer(instr.Type(), instr.X.Type(), fr.get(instr.X))

	case *ssa.MakeInterface:
		fr.env[instr] = iface{t: instr.X.Type(), v: fr.get(instr.X)}

	case *ssa.Extract:
		fr.env[instr] = fr.get(instr.Tuple).(tuple)[instr.Index]

	case *ssa.Slice:
		fr.env[instr] = symSlice(fr.get(instr.X), fr.get(instr.Low), fr.get(instr.High), fr.get(instr.Max))

	case *ssa.Return:
		switch len(instr.Results) {
		case 0:
		case 1:
			fr.result = fr.get(instr.Results[0])
		default:
			var res []value
			for _, r := range instr.Results {
				res = append(res, fr.get(r))
			}
			fr.result = tuple(res)
		}
		fr.block = nil
		return kReturn

	case *ssa.RunDefers:
		fr.runDefers()

	case *ssa.Panic:
		panic(targetPanic{fr.get(instr.X)})

	case *ssa.Send:
		chanSend(fr, fr.get(instr.Chan), fr.get(instr.X))

	case *ssa.Store:
		store(mustDeref(instr.Addr.Type()), fr.get(instr.Addr).(*value), fr.get(instr.Val))

	case *ssa.If:
		succ := 1
		cv := fr.get(instr.Cond)
		if cs, ok := cv.(*Sym); ok && !NoIfConversion {
			if _, known := X.known(cs); !known && tryIfConvert(fr, instr, cs) {
				return kJump
			}
		}
		if asBool(cv) {
			succ = 0
		}
		fr.prevBlock, fr.block = fr.block, fr.block.Succs[succ]
		return kJump

	case *ssa.Jump:
		fr.prevBlock, fr.block = fr.block, fr.block.Succs[0]
		return kJump

	case *ssa.Defer:
		fn, args := prepareCall(fr, &instr.Call)
		defers := &fr.defers
		if into := fr.get(instr.DeferStack); into != nil {
			defers = into.(**deferred)
		}
		*defers = &deferred{
			fn:    fn,
			args:  args,
			instr: instr,
			tail:  *defers,
		}

	case *ssa.Go:
		fn, args := prepareCall(fr, &instr.Call)
		schedGo(fr, instr, fn, args)

	case *ssa.MakeChan:
		fr.env[instr] = newChan(int(asInt64(fr.get(instr.Size))))

	case *ssa.Alloc:
		var addr *value
		if instr.Heap {
			// new
			addr = new(value)
			fr.env[instr] = addr
		} else {
			// local
			addr = fr.env[instr].(*value)
		}
		*addr = zero(mustDeref(instr.Type()))

	case *ssa.MakeSlice:
		ln, cp := symMakeSliceSizes(fr.get(instr.Len), fr.get(instr.Cap))
		slice := make([]value, cp)
		tElt := instr.Type().Underlying().(*types.Slice).Elem()
		for i := range slice {
			slice[i] = zero(tElt)
		}
		fr.env[instr] = slice[:ln]

	case *ssa.MakeMap:
		var reserve int64
		if instr.Reserve != nil {
			if rv := fr.get(instr.Reserve); isSym(rv) {
				reserve = 0 // a size hint; negative hints are ignored by the runtime as well
			} else {
				reserve = asInt64(rv)
			}
		}
		if !fitsInt(reserve, fr.i.sizes) {
			panic(fmt.Sprintf("ssa.MakeMap.Reserve value %d does not fit in int", reserve))
		}
		fr.env[instr] = makeMap(instr.Type().Underlying().(*types.Map).Key(), reserve)

	case *ssa.Range:
		fr.env[instr] = rangeIter(fr.get(instr.X), instr.X.Type())

	case *ssa.Next:
		fr.env[instr] = fr.get(instr.Iter).(iter).next()

	case *ssa.FieldAddr:
		fr.env[instr] = &(*fr.get(instr.X).(*value)).(structure)[instr.Field]

	case *ssa.Field:
		fr.env[instr] = fr.get(instr.X).(structure)[instr.Field]

	case *ssa.IndexAddr:
		x := fr.get(instr.X)
		idx := fr.get(instr.Index)
		switch x := x.(type) {
		case []value:
			fr.env[instr] = &x[symIndex(idx, len(x))]
		case *value: // *array
			fr.env[instr] = &(*x).(array)[symIndex(idx, len((*x).(array)))]
		default:
			panic(fmt.Sprintf("unexpected x type in IndexAddr: %T", x))
		}

	case *ssa.Index:
		x := fr.get(instr.X)
		idx := fr.get(instr.Index)

		switch x := x.(type) {
		case array:
			fr.env[instr] = x[symIndex(idx, len(x))]
		case string:
			fr.env[instr] = x[symIndex(idx, len(x))]
		default:
			panic(fmt.Sprintf("unexpected x type in Index: %T", x))
		}

	case *ssa.Lookup:
		fr.env[instr] = lookup(instr, fr.get(instr.X), fr.get(instr.Index))

	case *ssa.MapUpdate:
		m := fr.get(instr.Map)
		key := fr.get(instr.Key)
		v := fr.get(instr.Value)
		if isSym(key) {
			panic(engineError{"symbolic map key"})
		}
		lsMapAccess(m, true)
		switch m := m.(type) {
		case map[value]value:
			if m == nil {
				panic("assignment to entry in nil map")
			}
			m[key] = v
		case *hashmap:
			m.insert(key.(hashable), v)
		default:
			panic(fmt.Sprintf("illegal map type: %T", m))
		}

	case *ssa.TypeAssert:
		fr.env[instr] = typeAssert(fr.i, instr, fr.get(instr.X).(iface))

	case *ssa.MakeClosure:
		var bindings []value
		for _, binding := range instr.Bindings {
			bindings = append(bindings, fr.get(binding))
		}
		fr.env[instr] = &closure{instr.Fn.(*ssa.Function), bindings}

	case *ssa.Phi:
		log.Fatal("unreachable") // phis are processed at block entry

	case *ssa.Select:
		fr.env[instr] = schedSelect(fr, instr)

	default:
		panic(fmt.Sprintf("unexpected instruction: %T", instr))
	}

	// if val, ok := instr.(ssa.Value); ok {
	// 	fmt.Println(toString(fr.env[val])) // debugging
	// }

	return kNext
}

// prepareCall determines the function value and argument values for a
// function call in a Call, Go or Defer instruction, performing
// interface method lookup if needed.
func prepareCall(fr *frame, call *ssa.CallCommon) (fn value, args []value) {
	v := fr.get(call.Value)
	if call.Method == nil {
		// Function call.
		fn = v
	} else {
		// Interface method invocation.
		recv := v.(iface)
		if recv.t == nil {
			panic("method invoked on nil interface")
		}
		if f := lookupMethod(fr.i, recv.t, call.Method); f == nil {
			// Unreachable in well-typed programs.
			panic(fmt.Sprintf("method set for dynamic type %v does not contain %s", recv.t, call.Method))
		} else {
			fn = f
		}
		args = append(args, recv.v)
	}
	for _, arg := range call.Args {
		args = append(args, fr.get(arg))
	}
	return
}

// call interprets a call to a function (function, builtin or closure)
// fn with arguments args, returning its result.
// callpos is the position of the callsite.
func call(i *interpreter, caller *frame, callpos token.Pos, fn value, args []value) value {
	switch fn := fn.(type) {
	case *ssa.Function:
		if fn == nil {
			panic("call of nil function") // nil of func type
		}
		return callSSA(i, caller, callpos, fn, args, nil)
	case *closure:
		return callSSA(i, caller, callpos, fn.Fn, args, fn.Env)
	case *ssa.Builtin:
		return callBuiltin(caller, callpos, fn, args)
	}
	panic(fmt.Sprintf("cannot call %T", fn))
}

func loc(fset *token.FileSet, pos token.Pos) string {
	if pos == token.NoPos {
		return ""
	}
	return " at " + fset.Position(pos).String()
}

// callSSA interprets a call to function fn with arguments args,
// and lexical environment env, returning its result.
// callpos is the position of the callsite.
func callSSA(i *interpreter, caller *frame, callpos token.Pos, fn *ssa.Function, args []value, env []value) value {
	if i.mode&EnableTracing != 0 {
		fset := fn.Prog.Fset
		// TODO(adonovan): fix: loc() lies for external functions.
		fmt.Fprintf(os.Stderr, "Entering %s%s.\n", fn, loc(fset, fn.Pos()))
		suffix := ""
		if caller != nil {
			suffix = ", resuming " + caller.fn.String() + loc(fset, callpos)
		}
		defer fmt.Fprintf(os.Stderr, "Leaving %s%s.\n", fn, suffix)
	}
	fr := &frame{
		i:      i,
		caller: caller, // for panic/recover
		fn:     fn,
	}
	stk := curStack() // per interpreted thread
	*stk = append(*stk, fn.String())
	defer func() {
		if n := len(*stk); n > 0 {
			*stk = (*stk)[:n-1]
		}
	}()
	if fn.Parent() == nil {
		name := fn.String()
		if fn.Name() == "init" && fn.Pkg != nil && fn.Synthetic != "" && !initWhitelist[fn.Pkg.Pkg.Path()] {
			return nil
		}
		if ext := lookupExternal(fn, name); ext != nil {
			if i.mode&EnableTracing != 0 {
				fmt.Fprintln(os.Stderr, "\t(external)")
			}
			return ext(fr, args)
		}
		if fn.Blocks == nil {
			panic(engineError{"unmodelled-callee " + name})
		}
	}
	if fn.Pkg != nil && fn.Pkg.Pkg.Path() == cometPath && X.Funcs != nil {
		X.Funcs[fn.String()] = true
	}

	// generic function body?
	if fn.TypeParams().Len() > 0 && len(fn.TypeArgs()) == 0 {
		panic("interp requires ssa.BuilderMode to include InstantiateGenerics to execute generics")
	}

	fr.env = make(map[ssa.Value]value)
	fr.block = fn.Blocks[0]
	fr.locals = make([]value, len(fn.Locals))
	for i, l := range fn.Locals {
		fr.locals[i] = zero(mustDeref(l.Type()))
		fr.env[l] = &fr.locals[i]
	}
	for i, p := range fn.Params {
		fr.env[p] = args[i]
	}
	for i, fv := range fn.FreeVars {
		fr.env[fv] = env[i]
	}
	for fr.block != nil {
		runFrame(fr)
	}
	// Destroy the locals to avoid accidental use after return.
	for i := range fn.Locals {
		fr.locals[i] = bad{}
	}
	return fr.result
}

// runFrame executes SSA instructions starting at fr.block and
// continuing until a return, a panic, or a recovered panic.
//
// After a panic, runFrame panics.
//
// After a normal return, fr.result contains the result of the call
// and fr.block is nil.
//
// A recovered panic in a function without named return parameters
// (NRPs) becomes a normal return of the zero value of the function's
// result type.
//
// After a recovered panic in a function with NRPs, fr.result is
// undefined and fr.block contains the block at which to resume
// control.
func runFrame(fr *frame) {
	defer func() {
		if fr.block == nil {
			return // normal return
		}
		if fr.i.mode&DisableRecover != 0 {
			return // let interpreter crash
		}
		fr.panicking = true
		fr.panic = recover()
		switch fr.panic.(type) {
		case pathAbort, engineError, threadKill, fsCrash:
			panic(fr.panic) // engine-level: the path is over, target defers are not run
		}
		if lastPanicWhere == "" {
			lastPanicWhere = whereAmI()
		}
		if fr.i.mode&EnableTracing != 0 {
			fmt.Fprintf(os.Stderr, "Panicking: %T %v.\n", fr.panic, fr.panic)
		}
		fr.runDefers()
		fr.block = fr.fn.Recover
	}()

	for {
		if fr.i.mode&EnableTracing != 0 {
			fmt.Fprintf(os.Stderr, ".%s:\n", fr.block)
		}

		nonPhis := executePhis(fr)
		for _, instr := range nonPhis {
			if fr.i.mode&EnableTracing != 0 {
				if v, ok := instr.(ssa.Value); ok {
					fmt.Fprintln(os.Stderr, "\t", v.Name(), "=", instr)
				} else {
					fmt.Fprintln(os.Stderr, "\t", instr)
				}
			}
			X.pathSteps++
			if X.pathSteps > X.MaxSteps && X.MaxSteps > 0 {
				X.unwind("step budget exceeded")
			}
			if visitInstr(fr, instr) == kReturn {
				return
			}
			// Inv: kNext (continue) or kJump (last instr)
		}
	}
}

// executePhis executes the phi-nodes at the start of the current
// block and returns the non-phi instructions.
func executePhis(fr *frame) []ssa.Instruction {
	firstNonPhi := -1
	for i, instr := range fr.block.Instrs {
		if _, ok := instr.(*ssa.Phi); !ok {
			firstNonPhi = i
			break
		}
	}
	// Inv: 0 <= firstNonPhi; every block contains a non-phi.

	nonPhis := fr.block.Instrs[firstNonPhi:]
	if fr.skipPhis {
		fr.skipPhis = false
		return nonPhis
	}
	if firstNonPhi > 0 {
		phis := fr.block.Instrs[:firstNonPhi]
		// Execute parallel assignment of phis.
		//
		// See "the swap problem" in Briggs et al's "Practical Improvements
		// to the Construction and Destruction of SSA Form" for discussion.
		predIndex := slices.Index(fr.block.Preds, fr.prevBlock)
		fr.phitemps = fr.phitemps[:0]
		for _, phi := range phis {
			phi := phi.(*ssa.Phi)
			if fr.i.mode&EnableTracing != 0 {
				fmt.Fprintln(os.Stderr, "\t", phi.Name(), "=", phi)
			}
			fr.phitemps = append(fr.phitemps, fr.get(phi.Edges[predIndex]))
		}
		for i, phi := range phis {
			fr.env[phi.(*ssa.Phi)] = fr.phitemps[i]
		}
	}
	return nonPhis
}

// doRecover implements the recover() built-in.
func doRecover(caller *frame) value {
	// recover() must be exactly one level beneath the deferred
	// function (two levels beneath the panicking function) to
	// have any effect.  Thus we ignore both "defer recover()" and
	// "defer f() -> g() -> recover()".
	if caller.i.mode&DisableRecover == 0 &&
		caller != nil && !caller.panicking &&
		caller.caller != nil && caller.caller.panicking {
		caller.caller.panicking = false
		p := caller.caller.panic
		caller.caller.panic = nil

		// TODO(adonovan): support runtime.Goexit.
		switch p := p.(type) {
		case targetPanic:
			// The target program explicitly called panic().
			return p.v
		case runtime.Error:
			// The interpreter encountered a runtime error.
			return iface{caller.i.runtimeErrorString, p.Error()}
		case string:
			// The interpreter explicitly called panic().
			return iface{caller.i.runtimeErrorString, p}
		default:
			panic(fmt.Sprintf("unexpected panic type %T in target call to recover()", p))
		}
	}
	return iface{}
}

// Interpret interprets the Go program whose main package is mainpkg.
// mode specifies various interpreter options.  filename and args are
// the initial values of os.Args for the target program.  sizes is the
// effective type-sizing function for this program.
//
// Interpret returns the exit code of the program: 2 for panic (like
// gc does), or the argument to os.Exit for normal termination.
//
// The SSA program must include the "runtime" package.
//
// Type parameterized functions must have been built with
// InstantiateGenerics in the ssa.BuilderMode to be interpreted.
func Interpret(mainpkg *ssa.Package, mode Mode, sizes types.Sizes, filename string, args []string) (exitCode int) {
	i := &interpreter{
		prog:       mainpkg.Prog,
		globals:    make(map[*ssa.Global]*value),
		mode:       mode,
		sizes:      sizes,
		goroutines: 1,
	}
	runtimePkg := i.prog.ImportedPackage("runtime")
	if runtimePkg == nil {
		panic("ssa.Program doesn't include runtime package")
	}
	i.runtimeErrorString = runtimePkg.Type("errorString").Object().Type()

	initReflect(i)

	i.osArgs = append(i.osArgs, filename)
	for _, arg := range args {
		i.osArgs = append(i.osArgs, arg)
	}

	for _, pkg := range i.prog.AllPackages() {
		// Initialize global storage.
		for _, m := range pkg.Members {
			switch v := m.(type) {
			case *ssa.Global:
				cell := zero(mustDeref(v.Type()))
				i.globals[v] = &cell
			}
		}
	}

	// Top-level error handler.
	exitCode = 2
	defer func() {
		if exitCode != 2 || i.mode&DisableRecover != 0 {
			return
		}
		switch p := recover().(type) {
		case exitPanic:
			exitCode = int(p)
			return
		case targetPanic:
			fmt.Fprintln(os.Stderr, "panic:", toString(p.v))
		case runtime.Error:
			fmt.Fprintln(os.Stderr, "panic:", p.Error())
		case string:
			fmt.Fprintln(os.Stderr, "panic:", p)
		default:
			fmt.Fprintf(os.Stderr, "panic: unexpected type: %T: %v\n", p, p)
		}

		// TODO(adonovan): dump panicking interpreter goroutine?
		// buf := make([]byte, 0x10000)
		// runtime.Stack(buf, false)
		// fmt.Fprintln(os.Stderr, string(buf))
		// (Or dump panicking target goroutine?)
	}()

	// Run!
	call(i, nil, token.NoPos, mainpkg.Func("init"), nil)
	if mainFn := mainpkg.Func("main"); mainFn != nil {
		call(i, nil, token.NoPos, mainFn, nil)
		exitCode = 0
	} else {
		fmt.Fprintln(os.Stderr, "No main function.")
		exitCode = 1
	}
	return
}
