package interp

// File-system model (storage tier) — filled in by fsmodel.go

func resetFS() {}
