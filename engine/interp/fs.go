package interp

// In-memory file-system model with an operation log, symbolic fault injection
// and crash points, and a framing model of compress/gzip (DESIGN.md §5).
//
//   - path -> bytes; directories are implicit (MkdirAll records them);
//   - every mutating call (MkdirAll, create, each file Write, Close of a written
//     file, Remove) is one numbered operation;
//   - vFSFailAt(n): operation n returns an error instead of taking effect (C17);
//   - vFSCrashAt(n): when operation n is about to run the modelled process dies
//     (engine-level panic caught by vRunUntilCrash) leaving the directory as it
//     is at that instant (C10);
//   - gzip: file bytes = header(2) || payload || trailer(5); a reader over a
//     file without a valid trailer yields the payload bytes present and then
//     io.ErrUnexpectedEOF; an empty or headerless file fails at NewReader.

import (
	"fmt"
	"go/types"
	"sort"
	"strings"

	"golang.org/x/tools/go/ssa"
)

type fsNode struct {
	data []value
}

type fsOp struct {
	Kind string
	Path string
	N    int
}

type fsModelT struct {
	files   map[string]*fsNode
	dirs    map[string]bool
	log     []fsOp
	ops     int
	failAt  int
	crashAt int
	pid     int
	overwrites int // os.Create of a path that already exists
	snaps   []map[string]*fsNode
}

type fsCrash struct{ at int }

var FS *fsModelT

// gzReadChunk > 0: a gzip Reader delivers at most this many bytes per Read call (harness-controlled, reset per path)
var gzReadChunk int

func resetFS() {
	fsSchedLevel = 0
	FS = &fsModelT{files: map[string]*fsNode{}, dirs: map[string]bool{}, failAt: -1, crashAt: -1, pid: 4242}
}

type modelFile struct {
	path    string
	node    *fsNode
	pos     int
	closed  bool
	wrote   bool
	writing bool
}

// step numbers a mutating operation; it returns false when the operation is to fail (fault injection)
// fsSchedLevel makes file-system calls scheduling points (system calls are natural pre-emption points):
// 1 = name-space operations (open / create / remove / rename / mkdir / readdir / stat / readfile), 2 = reads and writes too.
var fsSchedLevel int

var fsSchedOps = map[string]int{
	"os.MkdirAll": 1, "os.OpenFile": 1, "os.Create": 1, "os.Open": 1, "os.Remove": 1, "os.Rename": 1, "os.ReadDir": 1,
	"os.Stat": 1, "os.Lstat": 1, "os.ReadFile": 1, "os.WriteFile": 1, "os.RemoveAll": 1,
	"(*os.File).Write": 2, "(*os.File).WriteString": 2, "(*os.File).Read": 2, "(*os.File).Close": 2,
}

func (f *fsModelT) step(kind, path string, n int) bool {
	idx := f.ops
	if f.crashAt == idx {
		f.crashAt = -1
		panic(fsCrash{idx})
	}
	f.ops++
	if f.failAt == idx {
		f.failAt = -1
		f.log = append(f.log, fsOp{"FAILED " + kind, path, n})
		return false
	}
	f.log = append(f.log, fsOp{kind, path, n})
	return true
}

func fileValue(fr *frame, mf *modelFile) value {
	var cell value = mf
	return &cell
}

func asModelFile(v value) *modelFile {
	p, ok := v.(*value)
	if !ok || p == nil {
		panic(targetPanic{"invalid memory address or nil pointer dereference (nil *os.File)"})
	}
	mf, ok := (*p).(*modelFile)
	if !ok {
		panic(engineError{"os.File value not created by the file-system model"})
	}
	return mf
}

func errExist(fr *frame, path string) value {
	return mkError(fr, "open "+path+": file exists")
}
func errNotExist(fr *frame, op, path string) value {
	return mkError(fr, op+" "+path+": no such file or directory")
}
func errInjected(fr *frame, op, path string) value {
	return mkError(fr, op+" "+path+": input/output error (injected fault)")
}

func nilFile() value { return (*value)(nil) }

const (
	oWRONLY = 0x1
	oRDWR   = 0x2
	oCREATE = 0x40
	oEXCL   = 0x80
	oTRUNC  = 0x200
	oAPPEND = 0x400
)

func fsOpen(fr *frame, path string, flag int) value {
	node := FS.files[path]
	write := flag&(oWRONLY|oRDWR) != 0
	if flag&oCREATE != 0 {
		if node != nil && flag&oEXCL != 0 {
			return tuple{nilFile(), errExist(fr, path)}
		}
		if node == nil {
			if !FS.step("create", path, 0) {
				return tuple{nilFile(), errInjected(fr, "open", path)}
			}
			node = &fsNode{}
			FS.files[path] = node
		} else if flag&oTRUNC != 0 {
			if !FS.step("truncate", path, 0) {
				return tuple{nilFile(), errInjected(fr, "open", path)}
			}
			node.data = nil
			FS.overwrites++
		}
	} else {
		if node == nil {
			return tuple{nilFile(), errNotExist(fr, "open", path)}
		}
		if flag&oTRUNC != 0 {
			node.data = nil
		}
	}
	mf := &modelFile{path: path, node: node, writing: write}
	if flag&oAPPEND != 0 {
		mf.pos = len(node.data)
	}
	return tuple{fileValue(fr, mf), iface{}}
}

func init() {
	for k, v := range map[string]externalFn{
		"os.MkdirAll": func(fr *frame, a []value) value {
			p := a[0].(string)
			if FS.dirs[p] {
				return iface{}
			}
			if !FS.step("mkdir", p, 0) {
				return errInjected(fr, "mkdir", p)
			}
			FS.dirs[p] = true
			return iface{}
		},
		"os.OpenFile": func(fr *frame, a []value) value { return fsOpen(fr, a[0].(string), asInt(a[1])) },
		"os.Create":   func(fr *frame, a []value) value { return fsOpen(fr, a[0].(string), oRDWR|oCREATE|oTRUNC) },
		"os.Open":     func(fr *frame, a []value) value { return fsOpen(fr, a[0].(string), 0) },
		"os.Remove": func(fr *frame, a []value) value {
			p := a[0].(string)
			if FS.files[p] == nil {
				return errNotExist(fr, "remove", p)
			}
			if !FS.step("remove", p, 0) {
				return errInjected(fr, "remove", p)
			}
			delete(FS.files, p)
			return iface{}
		},
		"os.IsExist": func(fr *frame, a []value) value {
			return strings.Contains(errText(fr, a[0]), "file exists")
		},
		"os.IsNotExist": func(fr *frame, a []value) value {
			return strings.Contains(errText(fr, a[0]), "no such file or directory")
		},
		"os.ReadDir": func(fr *frame, a []value) value {
			dir := a[0].(string)
			if !FS.dirs[dir] {
				return tuple{[]value(nil), errNotExist(fr, "open", dir)}
			}
			idx := FS.ops
			if FS.failAt == idx { // reads can be failed too (unlistable directory); they are not logged as mutations
				FS.failAt = -1
				FS.ops++
				return tuple{[]value(nil), errInjected(fr, "readdir", dir)}
			}
			FS.ops++
			var names []string
			for p := range FS.files {
				if strings.HasPrefix(p, dir+"/") && !strings.Contains(p[len(dir)+1:], "/") {
					names = append(names, p[len(dir)+1:])
				}
			}
			sort.Strings(names)
			T := fr.i.prog.ImportedPackage("os").Type("unixDirent").Object().Type()
			var out []value
			for _, n := range names {
				st := zero(T).(structure)
				st[0] = dir
				st[1] = n
				var cell value = st
				out = append(out, iface{t: types.NewPointer(T), v: &cell})
			}
			return tuple{out, iface{}}
		},
		"(*os.unixDirent).Info": func(fr *frame, a []value) value {
			st := (*(a[0].(*value))).(structure)
			p := st[0].(string) + "/" + st[1].(string)
			node := FS.files[p]
			if node == nil {
				return tuple{iface{}, errNotExist(fr, "lstat", p)}
			}
			T := fr.i.prog.ImportedPackage("os").Type("fileStat").Object().Type()
			fs := zero(T).(structure)
			fs[0] = st[1]
			fs[1] = int64(len(node.data))
			var cell value = fs
			return tuple{iface{t: types.NewPointer(T), v: &cell}, iface{}}
		},
		"(*os.unixDirent).Type": func(fr *frame, a []value) value { return uint32(0) },
		"os.Lstat": func(fr *frame, a []value) value { return externals["os.Stat"](fr, a) },
		"os.ReadFile": func(fr *frame, a []value) value {
			p := a[0].(string)
			node := FS.files[p]
			if node == nil {
				return tuple{[]value(nil), errNotExist(fr, "open", p)}
			}
			out := make([]value, len(node.data))
			copy(out, node.data)
			return tuple{out, iface{}}
		},
		"(*os.File).Stat": func(fr *frame, a []value) value {
			mf := asModelFile(a[0])
			T := fr.i.prog.ImportedPackage("os").Type("fileStat").Object().Type()
			st := zero(T).(structure)
			st[0] = mf.path
			st[1] = int64(len(mf.node.data))
			var cell value = st
			return tuple{iface{t: types.NewPointer(T), v: &cell}, iface{}}
		},
		// the directory image at this instant (what a process death right now would leave) / put it back
		cometPath + ".vFSSnapshot": func(fr *frame, a []value) value {
			snap := map[string]*fsNode{}
			for p, n := range FS.files {
				snap[p] = &fsNode{data: append([]value(nil), n.data...)}
			}
			FS.snaps = append(FS.snaps, snap)
			return len(FS.snaps) - 1
		},
		cometPath + ".vFSRestore": func(fr *frame, a []value) value {
			snap := FS.snaps[asInt(a[0])]
			FS.files = map[string]*fsNode{}
			for p, n := range snap {
				FS.files[p] = &fsNode{data: append([]value(nil), n.data...)}
			}
			return nil
		},
		cometPath + ".vFSSched": func(fr *frame, a []value) value { fsSchedLevel = asInt(a[0]); return nil },
		"os.Stat": func(fr *frame, a []value) value {
			p := a[0].(string)
			node := FS.files[p]
			if node == nil {
				return tuple{iface{}, errNotExist(fr, "stat", p)}
			}
			T := fr.i.prog.ImportedPackage("os").Type("fileStat").Object().Type()
			st := zero(T).(structure)
			st[0] = p
			st[1] = int64(len(node.data))
			var cell value = st
			return tuple{iface{t: types.NewPointer(T), v: &cell}, iface{}}
		},
		"(*os.File).Write": func(fr *frame, a []value) value {
			mf := asModelFile(a[0])
			data := a[1].([]value)
			if mf.closed {
				return tuple{0, mkError(fr, "write "+mf.path+": file already closed")}
			}
			if !FS.step("write", mf.path, len(data)) {
				return tuple{0, errInjected(fr, "write", mf.path)}
			}
			mf.node.data = append(mf.node.data[:min2(mf.pos, len(mf.node.data))], data...)
			mf.pos += len(data)
			mf.wrote = true
			return tuple{len(data), iface{}}
		},
		"(*os.File).WriteString": func(fr *frame, a []value) value {
			mf := asModelFile(a[0])
			s := a[1].(string)
			if mf.closed {
				return tuple{0, mkError(fr, "write "+mf.path+": file already closed")}
			}
			if !FS.step("write", mf.path, len(s)) {
				return tuple{0, errInjected(fr, "write", mf.path)}
			}
			for i := 0; i < len(s); i++ {
				mf.node.data = append(mf.node.data, s[i])
			}
			mf.pos += len(s)
			mf.wrote = true
			return tuple{len(s), iface{}}
		},
		"(*os.File).Read": func(fr *frame, a []value) value {
			mf := asModelFile(a[0])
			buf := a[1].([]value)
			if mf.closed {
				return tuple{0, mkError(fr, "read "+mf.path+": file already closed")}
			}
			if mf.pos >= len(mf.node.data) {
				return tuple{0, ioErr(fr, "EOF")}
			}
			n := copy(buf, mf.node.data[mf.pos:])
			mf.pos += n
			return tuple{n, iface{}}
		},
		"(*os.File).Close": func(fr *frame, a []value) value {
			mf := asModelFile(a[0])
			if mf.closed {
				return mkError(fr, "close "+mf.path+": file already closed")
			}
			if mf.wrote {
				if !FS.step("close", mf.path, 0) {
					return errInjected(fr, "close", mf.path)
				}
			}
			mf.closed = true
			return iface{}
		},
		"(*os.File).Sync": func(fr *frame, a []value) value { return iface{} },
		"(*os.File).Name": func(fr *frame, a []value) value { return asModelFile(a[0]).path },

		// ---- gzip framing model ----
		"compress/gzip.NewWriter": func(fr *frame, a []value) value {
			var cell value = &gzWriter{w: a[0].(iface)}
			return &cell
		},
		"(*compress/gzip.Writer).Write": func(fr *frame, a []value) value {
			g := (*(a[0].(*value))).(*gzWriter)
			if g.closed {
				return tuple{0, mkError(fr, "gzip: write to closed writer")}
			}
			if e := g.header(fr); e != nil {
				return tuple{0, e}
			}
			data := a[1].([]value)
			r := callMethod(fr, g.w, "Write", append([]value(nil), data...)).(tuple)
			if e := r[1].(iface); e.t != nil {
				return tuple{0, r[1]}
			}
			g.n += len(data)
			return tuple{len(data), iface{}}
		},
		"(*compress/gzip.Writer).Flush": func(fr *frame, a []value) value { return iface{} },
		"(*compress/gzip.Writer).Close": func(fr *frame, a []value) value {
			g := (*(a[0].(*value))).(*gzWriter)
			if g.closed {
				return iface{}
			}
			if e := g.header(fr); e != nil {
				return e
			}
			g.closed = true
			n := g.n
			tr := []value{uint8(n), uint8(n >> 8), uint8(n >> 16), uint8(n >> 24), uint8(0x47)}
			r := callMethod(fr, g.w, "Write", tr).(tuple)
			return r[1]
		},
		"compress/gzip.NewReader": func(fr *frame, a []value) value {
			r := a[0].(iface)
			// read the whole underlying stream
			var all []value
			for guard := 0; guard < 1<<20; guard++ {
				buf := make([]value, 512)
				for i := range buf {
					buf[i] = uint8(0)
				}
				res := callMethod(fr, r, "Read", buf).(tuple)
				n := asInt(res[0])
				all = append(all, buf[:n]...)
				if e := res[1].(iface); e.t != nil {
					break
				}
				if n == 0 {
					break
				}
			}
			if len(all) < 2 || !byteIs(all[0], 0x1f) || !byteIs(all[1], 0x8b) {
				if len(all) == 0 {
					return tuple{(*value)(nil), ioErr(fr, "EOF")}
				}
				if len(all) < 2 {
					return tuple{(*value)(nil), ioErr(fr, "ErrUnexpectedEOF")}
				}
				return tuple{(*value)(nil), mkError(fr, "gzip: invalid header")}
			}
			body := all[2:]
			g := &gzReader{}
			if n := len(body); n >= 5 && byteIs(body[n-1], 0x47) {
				l := 0
				okc := true
				for i := 0; i < 4; i++ {
					b, ok := body[n-5+i].(uint8)
					if !ok {
						okc = false
						break
					}
					l |= int(b) << (8 * uint(i))
				}
				if okc && l == n-5 {
					g.data = body[:n-5]
					g.complete = true
				}
			}
			if !g.complete {
				g.data = body // whatever payload reached the file, then an unexpected EOF
			}
			var cell value = g
			return tuple{&cell, iface{}}
		},
		"(*compress/gzip.Reader).Read": func(fr *frame, a []value) value {
			g := (*(a[0].(*value))).(*gzReader)
			buf := a[1].([]value)
			if g.pos >= len(g.data) {
				if g.complete {
					return tuple{0, ioErr(fr, "EOF")}
				}
				return tuple{0, ioErr(fr, "ErrUnexpectedEOF")}
			}
			if gzReadChunk > 0 && len(buf) > gzReadChunk {
				buf = buf[:gzReadChunk] // a legal io.Reader: the real one hands out at most one decompression window per call
			}
			n := copy(buf, g.data[g.pos:])
			g.pos += n
			return tuple{n, iface{}}
		},
		cometPath + ".vGzipReadChunk": func(fr *frame, a []value) value { gzReadChunk = asInt(a[0]); return nil },
		"(*compress/gzip.Reader).Close": func(fr *frame, a []value) value { return iface{} },

		// ---- harness control ----
		cometPath + ".vFSFailAt":  func(fr *frame, a []value) value { FS.failAt = asInt(a[0]); return nil },
		cometPath + ".vFSCrashAt": func(fr *frame, a []value) value { FS.crashAt = asInt(a[0]); return nil },
		cometPath + ".vFSOps":     func(fr *frame, a []value) value { return FS.ops },
		cometPath + ".vFSOverwrites": func(fr *frame, a []value) value { return FS.overwrites },
		cometPath + ".vFSExists":  func(fr *frame, a []value) value { return FS.files[a[0].(string)] != nil },
		cometPath + ".vFSList": func(fr *frame, a []value) value {
			var names []string
			for p, n := range FS.files {
				names = append(names, fmt.Sprintf("%s:%d", p, len(n.data)))
			}
			sort.Strings(names)
			return strings.Join(names, ",")
		},
		cometPath + ".vFSTruncate": func(fr *frame, a []value) value {
			if n := FS.files[a[0].(string)]; n != nil {
				k := asInt(a[1])
				if k < len(n.data) {
					n.data = n.data[:k]
				}
			}
			return nil
		},
		cometPath + ".vFSSize": func(fr *frame, a []value) value {
			if n := FS.files[a[0].(string)]; n != nil {
				return len(n.data)
			}
			return -1
		},
		cometPath + ".vFSReadAll": func(fr *frame, a []value) value {
			if n := FS.files[a[0].(string)]; n != nil {
				return append([]value(nil), n.data...)
			}
			return []value(nil)
		},
		cometPath + ".vFSWriteAll": func(fr *frame, a []value) value {
			FS.files[a[0].(string)] = &fsNode{data: append([]value(nil), a[1].([]value)...)}
			return nil
		},
		cometPath + ".vFSWrite": func(fr *frame, a []value) value {
			n := &fsNode{}
			for _, b := range a[1].([]value) {
				n.data = append(n.data, b)
			}
			FS.files[a[0].(string)] = n
			return nil
		},
		cometPath + ".vFSRemove": func(fr *frame, a []value) value { delete(FS.files, a[0].(string)); return nil },
		cometPath + ".vFSLog": func(fr *frame, a []value) value {
			var sb strings.Builder
			for i, o := range FS.log {
				fmt.Fprintf(&sb, "%d:%s %s %d;", i, o.Kind, o.Path, o.N)
			}
			return sb.String()
		},
		// vRunUntilCrash runs f; if the modelled process dies at the armed crash point it returns true
		// (background threads die with it), otherwise false
		cometPath + ".vRunUntilCrash": func(fr *frame, a []value) (ret value) {
			crashed := false
			func() {
				defer func() {
					if r := recover(); r != nil {
						if _, ok := r.(fsCrash); ok {
							crashed = true
							S.killAll()
							main := S.threads[0]
							main.ready = nil
							S = &scheduler{threads: []*thread{main}, cur: main, locks: map[*value]*lockState{}, wgs: map[*value]*int{}, forkPick: S.forkPick}
							return
						}
						panic(r)
					}
				}()
				call(fr.i, fr, 0, a[0], nil)
			}()
			FS.crashAt = -1
			return crashed
		},
	} {
		if lvl := fsSchedOps[k]; lvl > 0 {
			inner, name := v, k
			v = func(fr *frame, a []value) value {
				if fsSchedLevel >= lvl {
					schedPoint(fr, "fs:"+name)
				}
				return inner(fr, a)
			}
		}
		externals[k] = v
	}
}

type gzWriter struct {
	w       iface
	n       int
	started bool
	closed  bool
}

func (g *gzWriter) header(fr *frame) value {
	if g.started {
		return nil
	}
	g.started = true
	r := callMethod(fr, g.w, "Write", []value{uint8(0x1f), uint8(0x8b)}).(tuple)
	if e := r[1].(iface); e.t != nil {
		return r[1]
	}
	return nil
}

type gzReader struct {
	data     []value
	pos      int
	complete bool
}

func byteIs(v value, b uint8) bool {
	c, ok := v.(uint8)
	return ok && c == b
}

func min2(a, b int) int {
	if a < b {
		return a
	}
	return b
}

func errText(fr *frame, v value) string {
	e, ok := v.(iface)
	if !ok || e.t == nil {
		return ""
	}
	s, _ := nativeArg(fr, e).(string)
	return s
}

// ioErr returns the io package's sentinel error value (io.EOF, io.ErrUnexpectedEOF)
func ioErr(fr *frame, name string) value {
	g := fr.i.prog.ImportedPackage("io").Var(name)
	if g == nil {
		panic(engineError{"io." + name + " not found"})
	}
	return *fr.i.globals[g]
}

var _ = ssa.Function{}
