package interp

// Environment models and harness primitives (DESIGN.md §5).

import (
	"fmt"
	"go/types"
	"math"
	"math/bits"
	"path/filepath"
	"strconv"
	"strings"
	"unicode"

	"github.com/clipperhouse/uax29/v2/words"
	"golang.org/x/text/unicode/norm"
	"golang.org/x/tools/go/ssa"
)

const cometPath = "github.com/wizenheimer/comet"

func mathFloat32bits(f float32) uint32 { return math.Float32bits(f) }

func mustDeref(t types.Type) types.Type {
	if p, ok := t.Underlying().(*types.Pointer); ok {
		return p.Elem()
	}
	panic("mustDeref: not a pointer: " + t.String())
}

var initWhitelist = map[string]bool{
	cometPath:                          true,
	"github.com/RoaringBitmap/roaring": true,
	"github.com/RoaringBitmap/roaring/BitSliceIndexing": true,
	"io":                      true,
	"container/heap":          true,
	"github.com/x448/float16": true,
	"errors":                  false,
}

var mapOrderReverse bool
var mapOrderBase bool // the job's own order (reverse in the thorough re-run); vMapOrder(true) flips relative to it

// per-path environment state
var pools map[*value][]value

func resetEnv() {
	pools = map[*value][]value{}
	resetLockset()
	resetFS()
	resetSched()
}

func init() {
	for k, v := range map[string]externalFn{
		"(*sync.RWMutex).Lock":    extLock,
		"(*sync.RWMutex).Unlock":  extUnlock,
		"(*sync.RWMutex).RLock":   extRLock,
		"(*sync.RWMutex).RUnlock": extRUnlock,
		"(*sync.Mutex).Lock":      extLock,
		"(*sync.Mutex).Unlock":    extUnlock,
		"(*sync.Mutex).TryLock":   extTryLock,
		"(*sync.Pool).Get":        extPoolGet,
		"(*sync.Pool).Put":        extPoolPut,
		"(*sync.Once).Do":         extOnceDo,

		"sync/atomic.AddUint32":   extAtomicAdd,
		"sync/atomic.AddUint64":   extAtomicAdd,
		"sync/atomic.AddInt32":    extAtomicAdd,
		"sync/atomic.AddInt64":    extAtomicAdd,
		"sync/atomic.LoadUint32":  extAtomicLoad,
		"sync/atomic.LoadUint64":  extAtomicLoad,
		"sync/atomic.LoadInt32":   extAtomicLoad,
		"sync/atomic.LoadInt64":   extAtomicLoad,
		"sync/atomic.StoreUint32": extAtomicStore,
		"sync/atomic.StoreUint64": extAtomicStore,
		"sync/atomic.StoreInt32":  extAtomicStore,
		"sync/atomic.StoreInt64":  extAtomicStore,
		"sync/atomic.CompareAndSwapUint32": extAtomicCAS,
		"sync/atomic.CompareAndSwapInt32":  extAtomicCAS,
		"sync/atomic.CompareAndSwapUint64": extAtomicCAS,
		"sync/atomic.CompareAndSwapInt64":  extAtomicCAS,
		"sync/atomic.SwapUint32":           extAtomicSwap,
		"sync/atomic.SwapInt32":            extAtomicSwap,

		"fmt.Errorf":   extErrorf,
		"fmt.Sprintf":  extSprintf,
		"fmt.Sprint":   ext۰fmt۰Sprint,
		"fmt.Printf":   extNop,
		"fmt.Println":  extNop,
		"errors.New":   extErrorsNew,
		"errors.Is":     extErrorsIs,
		"errors.Unwrap": extErrorsUnwrap,
		"sort.SliceStable": extSortSliceStable,
		"sort.Slice":   extSortSlice,
		"sort.Strings": ext۰sort۰Strings,
		"sort.Ints":    ext۰sort۰Ints,

		"math.Sqrt":            extSqrt,
		"math.Abs":             extAbs,
		"math.Round":           extRound,
		"math.Floor":           extRoundTo("f64_floor", math.Floor),
		"math.Ceil":            extRoundTo("f64_ceil", math.Ceil),
		"math.Trunc":           extRoundTo("f64_trunc", math.Trunc),
		"math.Log":             extLog,
		"math.Float32bits":     extFloat32bits,
		"math.Float32frombits": extFloat32frombits,
		"math.Float64bits":     extFloat64bits,
		"math.Float64frombits": extFloat64frombits,
		"math/rand/v2.Float64": extRand,
		// the other draws of the random source: a deterministic sequence that differs from call to call (a per-path
		// counter), so that a result that must not depend on randomness comes out different in two runs of the same call
		"math/rand/v2.Perm":    extRandPerm,
		"math/rand.Perm":       extRandPerm,
		"math/rand/v2.IntN":    extRandIntN,
		"math/rand/v2.Int64N":  extRandIntN,
		"math/rand/v2.Int32N":  extRandIntN,
		"math/rand/v2.UintN":   extRandIntN,
		"math/rand/v2.Uint64N": extRandIntN,
		"math/rand/v2.Uint32N": extRandIntN,
		"math/rand.Intn":       extRandIntN,
		"math/rand.Int63n":     extRandIntN,
		"math/rand.Int31n":     extRandIntN,
		"math/rand/v2.Int":     extRandInt,
		"math/rand/v2.Int64":   extRandInt,
		"math/rand/v2.Int32":   extRandInt,
		"math/rand/v2.Uint32":  extRandInt,
		"math/rand/v2.Uint64":  extRandInt,
		"math/rand.Int":        extRandInt,
		"math/rand.Int63":      extRandInt,
		"math/rand.Int31":      extRandInt,
		"math/rand.Uint32":     extRandInt,
		"math/rand.Float64":    extRand,
		"math/rand/v2.Shuffle": extRandShuffle,
		"math/rand.Shuffle":    extRandShuffle,
		"math/rand.Seed":       extNop,

		"encoding/binary.Write": extBinaryWrite,
		"encoding/binary.Read":  extBinaryRead,

		"strings.ToLower":    extStr1(strings.ToLower),
		"strings.ToUpper":    extStr1(strings.ToUpper),
		"strings.TrimSpace":  extStr1(strings.TrimSpace),
		"strings.Contains":   func(fr *frame, a []value) value { return strings.Contains(a[0].(string), a[1].(string)) },
		"strings.HasPrefix":  func(fr *frame, a []value) value { return strings.HasPrefix(a[0].(string), a[1].(string)) },
		"strings.HasSuffix":  func(fr *frame, a []value) value { return strings.HasSuffix(a[0].(string), a[1].(string)) },
		"strings.TrimSuffix": func(fr *frame, a []value) value { return strings.TrimSuffix(a[0].(string), a[1].(string)) },
		"strings.TrimPrefix": func(fr *frame, a []value) value { return strings.TrimPrefix(a[0].(string), a[1].(string)) },
		"strings.Split": func(fr *frame, a []value) value {
			var out []value
			for _, s := range strings.Split(a[0].(string), a[1].(string)) {
				out = append(out, s)
			}
			return out
		},
		"strings.Cut": func(fr *frame, a []value) value {
			b, af, ok := strings.Cut(a[0].(string), a[1].(string))
			return tuple{b, af, ok}
		},
		"strings.CutPrefix": func(fr *frame, a []value) value {
			r, ok := strings.CutPrefix(a[0].(string), a[1].(string))
			return tuple{r, ok}
		},
		"strings.CutSuffix": func(fr *frame, a []value) value {
			r, ok := strings.CutSuffix(a[0].(string), a[1].(string))
			return tuple{r, ok}
		},
		"strings.LastIndex":     func(fr *frame, a []value) value { return strings.LastIndex(a[0].(string), a[1].(string)) },
		"strings.LastIndexByte": func(fr *frame, a []value) value { return strings.LastIndexByte(a[0].(string), byte(asInt(a[1]))) },
		"strings.IndexByte":     func(fr *frame, a []value) value { return strings.IndexByte(a[0].(string), byte(asInt(a[1]))) },
		"strings.Index":         func(fr *frame, a []value) value { return strings.Index(a[0].(string), a[1].(string)) },
		"strings.TrimLeft":      func(fr *frame, a []value) value { return strings.TrimLeft(a[0].(string), a[1].(string)) },
		"strings.TrimRight":     func(fr *frame, a []value) value { return strings.TrimRight(a[0].(string), a[1].(string)) },
		"strings.Trim":          func(fr *frame, a []value) value { return strings.Trim(a[0].(string), a[1].(string)) },
		"strings.Repeat":        func(fr *frame, a []value) value { return strings.Repeat(a[0].(string), asInt(a[1])) },
		"strings.ReplaceAll":    func(fr *frame, a []value) value { return strings.ReplaceAll(a[0].(string), a[1].(string), a[2].(string)) },
		"strings.SplitN": func(fr *frame, a []value) value {
			var out []value
			for _, s := range strings.SplitN(a[0].(string), a[1].(string), asInt(a[2])) {
				out = append(out, s)
			}
			return out
		},
		"strings.Fields": func(fr *frame, a []value) value {
			var out []value
			for _, s := range strings.Fields(a[0].(string)) {
				out = append(out, s)
			}
			return out
		},
		"strings.Join": func(fr *frame, a []value) value {
			var parts []string
			for _, p := range a[0].([]value) {
				parts = append(parts, p.(string))
			}
			return strings.Join(parts, a[1].(string))
		},
		"strconv.ParseInt": func(fr *frame, a []value) value {
			u, err := strconv.ParseInt(a[0].(string), asInt(a[1]), asInt(a[2]))
			if err != nil {
				return tuple{u, mkError(fr, err.Error())}
			}
			return tuple{u, iface{}}
		},
		"strconv.Atoi": func(fr *frame, a []value) value {
			u, err := strconv.Atoi(a[0].(string))
			if err != nil {
				return tuple{u, mkError(fr, err.Error())}
			}
			return tuple{u, iface{}}
		},
		"strconv.FormatUint": func(fr *frame, a []value) value { return strconv.FormatUint(uint64(asInt64(a[0])), asInt(a[1])) },
		"strconv.FormatInt":  func(fr *frame, a []value) value { return strconv.FormatInt(asInt64(a[0]), asInt(a[1])) },
		"path/filepath.Base": func(fr *frame, a []value) value { return filepath.Base(a[0].(string)) },
		"path/filepath.Dir":  func(fr *frame, a []value) value { return filepath.Dir(a[0].(string)) },
		"path/filepath.Ext":  func(fr *frame, a []value) value { return filepath.Ext(a[0].(string)) },
		"strconv.ParseUint": func(fr *frame, a []value) value {
			u, err := strconv.ParseUint(a[0].(string), asInt(a[1]), asInt(a[2]))
			if err != nil {
				return tuple{u, mkError(fr, err.Error())}
			}
			return tuple{u, iface{}}
		},
		"strconv.Itoa": ext۰strconv۰Itoa,
		"path/filepath.Join": func(fr *frame, a []value) value {
			var parts []string
			for _, p := range a[0].([]value) {
				parts = append(parts, p.(string))
			}
			return filepath.Join(parts...)
		},
		"(golang.org/x/text/unicode/norm.Form).IsNormalString": func(fr *frame, a []value) value {
			return norm.Form(asInt(a[0])).IsNormalString(a[1].(string))
		},
		"(golang.org/x/text/unicode/norm.Form).QuickSpanString": func(fr *frame, a []value) value {
			return norm.Form(asInt(a[0])).QuickSpanString(a[1].(string))
		},
		"(golang.org/x/text/unicode/norm.Form).Bytes": func(fr *frame, a []value) value {
			in := a[1].([]value)
			b := make([]byte, len(in))
			for i, x := range in {
				b[i] = x.(uint8)
			}
			out := norm.Form(asInt(a[0])).Bytes(b)
			res := make([]value, len(out))
			for i, x := range out {
				res[i] = x
			}
			return res
		},
		"unicode.IsUpper": func(fr *frame, a []value) value { return unicode.IsUpper(rune(asInt(a[0]))) },
		"unicode.IsLower": func(fr *frame, a []value) value { return unicode.IsLower(rune(asInt(a[0]))) },
		"unicode.IsLetter": func(fr *frame, a []value) value { return unicode.IsLetter(rune(asInt(a[0]))) },
		"unicode.IsDigit": func(fr *frame, a []value) value { return unicode.IsDigit(rune(asInt(a[0]))) },
		"unicode.IsSpace": func(fr *frame, a []value) value { return unicode.IsSpace(rune(asInt(a[0]))) },
		"unicode.IsPunct": func(fr *frame, a []value) value { return unicode.IsPunct(rune(asInt(a[0]))) },
		"unicode.ToLower": func(fr *frame, a []value) value { return int32(unicode.ToLower(rune(asInt(a[0])))) },
		"unicode.ToUpper": func(fr *frame, a []value) value { return int32(unicode.ToUpper(rune(asInt(a[0])))) },
		"(golang.org/x/text/unicode/norm.Form).String": func(fr *frame, a []value) value {
			return norm.Form(asInt(a[0])).String(a[1].(string))
		},
		"github.com/clipperhouse/uax29/v2/words.FromString": func(fr *frame, a []value) value {
			it := words.FromString(a[0].(string))
			var toks []string
			for it.Next() {
				toks = append(toks, it.Value())
			}
			// words.Iterator[string] is a struct embedding *iterators.Iterator[string] as field 0
			st := zero(fr.fn.Signature.Results().At(0).Type()).(structure)
			st[0] = &nativeTokIter{toks: toks, pos: -1}
			return st
		},

		"time.Now":   extZeroResult,
		"time.Since": func(fr *frame, a []value) value { return int64(0) },
		"os.Getpid":  func(fr *frame, a []value) value { return int(4242) },

		cometPath + ".vF32":        func(fr *frame, a []value) value { return vInput(types.Float32, a[0].(string)) },
		cometPath + ".vF64":        func(fr *frame, a []value) value { return vInput(types.Float64, a[0].(string)) },
		cometPath + ".vInt":        func(fr *frame, a []value) value { return vInput(types.Int, a[0].(string)) },
		cometPath + ".vI64":        func(fr *frame, a []value) value { return vInput(types.Int64, a[0].(string)) },
		cometPath + ".vI8":         func(fr *frame, a []value) value { return vInput(types.Int8, a[0].(string)) },
		cometPath + ".vU8":         func(fr *frame, a []value) value { return vInput(types.Uint8, a[0].(string)) },
		cometPath + ".vU16":        func(fr *frame, a []value) value { return vInput(types.Uint16, a[0].(string)) },
		cometPath + ".vU32":        func(fr *frame, a []value) value { return vInput(types.Uint32, a[0].(string)) },
		cometPath + ".vU64":        func(fr *frame, a []value) value { return vInput(types.Uint64, a[0].(string)) },
		cometPath + ".vBool":       func(fr *frame, a []value) value { return vInput(types.Bool, a[0].(string)) },
		cometPath + ".vChoose":     func(fr *frame, a []value) value { return X.choose(a[0].(string), asInt(a[1])) },
		cometPath + ".vAssume":     func(fr *frame, a []value) value { X.vAssume(a[0]); return nil },
		cometPath + ".vAssert":     func(fr *frame, a []value) value { X.vAssert(a[0], a[1].(string)); return nil },
		cometPath + ".vCover":      func(fr *frame, a []value) value { X.Covers[a[0].(string)]++; return nil },
		cometPath + ".vTag":        func(fr *frame, a []value) value { X.tags = append(X.tags, a[0].(string)); return nil },
		cometPath + ".vObserve":    extObserve,
		cometPath + ".vSymbolic":   func(fr *frame, a []value) value { return !X.Concrete },
		cometPath + ".vMapOrder":   func(fr *frame, a []value) value { mapOrderReverse = a[0].(bool) != mapOrderBase; return nil },
		cometPath + ".vRandBudget": func(fr *frame, a []value) value { X.randBudget = asInt(a[0]); return nil },
		cometPath + ".vAnd":        func(fr *frame, a []value) value { return symAnd(a[0], a[1]) },
		cometPath + ".vOr":         func(fr *frame, a []value) value { return symOr(a[0], a[1]) },
		cometPath + ".vNot":        func(fr *frame, a []value) value { return symNot(a[0]) },
		cometPath + ".vImplies":    func(fr *frame, a []value) value { return symOr(symNot(a[0]), a[1]) },
		cometPath + ".vSameF32":    extSameFloat,
		cometPath + ".vSameF64":    extSameFloat,
		cometPath + ".vFinite32":   extFinite,
		cometPath + ".vFinite64":   extFinite,
		cometPath + ".vIteF32":     func(fr *frame, a []value) value { return symIte(types.Float32, a[0], a[1], a[2]) },
		cometPath + ".vIteF64":     func(fr *frame, a []value) value { return symIte(types.Float64, a[0], a[1], a[2]) },
		cometPath + ".vIteInt":     func(fr *frame, a []value) value { return symIte(types.Int, a[0], a[1], a[2]) },
		cometPath + ".vConcrete":   extIsConcrete,
		cometPath + ".vTempDir":    func(fr *frame, a []value) value { d := "/vstore"; return d },
		cometPath + ".vExpectLevel": func(fr *frame, a []value) value { return -1 },
		cometPath + ".vUseLemma": func(fr *frame, a []value) value {
			if a[0].(string) == "sqabs" {
				X.lemmaSqAbs = true
				return nil
			}
			panic(engineError{"unknown lemma " + a[0].(string)})
		},
		cometPath + ".vF16Spec":    extF16Spec,
		cometPath + ".vF16ToF32Spec": extF16ToF32Spec,
	} {
		externals[k] = v
	}
}

type nativeTokIter struct {
	toks []string
	pos  int
}

func asInt(v value) int { return int(asInt64(v)) }

func extNop(fr *frame, args []value) value { return nil }

func extZeroResult(fr *frame, args []value) value {
	return zero(fr.fn.Signature.Results().At(0).Type())
}

func extStr1(f func(string) string) externalFn {
	return func(fr *frame, a []value) value { return f(a[0].(string)) }
}

// ---------- harness inputs ----------

func vInput(k types.BasicKind, name string) value {
	x := X
	if x.Concrete {
		u := x.Values[name]
		return concreteOfBits(k, u)
	}
	return NewInput(k, name)
}

func extObserve(fr *frame, a []value) value {
	if X.Concrete {
		X.Observed = append(X.Observed, a[0].(string)+"="+obsString(a[1]))
	}
	return nil
}

func obsString(v value) string {
	if i, ok := v.(iface); ok {
		v = i.v
	}
	switch c := v.(type) {
	case float32:
		return fmt.Sprintf("f32:%08x", math.Float32bits(c))
	case float64:
		return fmt.Sprintf("f64:%016x", math.Float64bits(c))
	case *Sym:
		return "<sym>"
	}
	return toString(v)
}

func extIsConcrete(fr *frame, a []value) value {
	v := a[0]
	if i, ok := v.(iface); ok {
		v = i.v
	}
	return !isSym(v)
}

func extSameFloat(fr *frame, a []value) value {
	x, y := a[0], a[1]
	if !isSym(x) && !isSym(y) {
		switch xv := x.(type) {
		case float32:
			yv := y.(float32)
			return xv == yv || (xv != xv && yv != yv)
		case float64:
			yv := y.(float64)
			return xv == yv || (xv != xv && yv != yv)
		}
	}
	if x == y {
		return true
	}
	k := kindOfValue(x)
	if isSym(y) {
		k = kindOfValue(y)
	}
	if sx, ok := x.(*Sym); ok && sx.ei {
		r, _ := eiBinop(tokEQL, k, x, y)
		return r
	}
	if sy, ok := y.(*Sym); ok && sy.ei {
		r, _ := eiBinop(tokEQL, k, x, y)
		return r
	}
	eq := symFloatBinop(tokEQL, k, x, y)
	nx := symNot(symFloatBinop(tokEQL, k, x, x))
	ny := symNot(symFloatBinop(tokEQL, k, y, y))
	return symOr(eq, symAnd(nx, ny))
}

func extFinite(fr *frame, a []value) value {
	x := a[0]
	switch c := x.(type) {
	case float32:
		return !math.IsInf(float64(c), 0) && c == c
	case float64:
		return !math.IsInf(c, 0) && c == c
	}
	s := x.(*Sym)
	if s.ei {
		return true
	}
	if s.kind == types.Float32 {
		return symAnd(symFloatBinop(tokLEQ, s.kind, float32(-math.MaxFloat32), s), symFloatBinop(tokLEQ, s.kind, s, float32(math.MaxFloat32)))
	}
	return symAnd(symFloatBinop(tokLEQ, s.kind, float64(-math.MaxFloat64), s), symFloatBinop(tokLEQ, s.kind, s, float64(math.MaxFloat64)))
}

// vF16Spec(bits uint16, x float32) bool: bits is an encoding of the binary16
// value SMT-LIB's to_fp (RNE) assigns to x.
func extF16Spec(fr *frame, a []value) value {
	if !isSym(a[0]) && !isSym(a[1]) {
		panic(engineError{"vF16Spec on concrete values: use the symbolic mode"})
	}
	return mk(types.Bool, "f16spec", fmt.Sprintf("(= ((_ to_fp 5 11) %s) ((_ to_fp 5 11) RNE %s))", term(a[0]), term(a[1])), a[0], a[1])
}

// vF16ToF32Spec(bits uint16, y float32) bool: y is the exact float32 value of the binary16 bits.
func extF16ToF32Spec(fr *frame, a []value) value {
	return mk(types.Bool, "f16to32spec", fmt.Sprintf("(= ((_ to_fp 8 24) RNE ((_ to_fp 5 11) %s)) %s)", term(a[0]), term(a[1])), a[0], a[1])
}

// ---------- sync ----------

func extPoolGet(fr *frame, args []value) value {
	p := args[0].(*value)
	schedPoint(fr, "pool.get")
	if l := pools[p]; len(l) > 0 {
		v := l[len(l)-1]
		pools[p] = l[:len(l)-1]
		lsForget(v, 0) // a pool hand-over orders the previous user's accesses before the next user's
		return v
	}
	st := (*p).(structure)
	newFn := st[len(st)-1] // field New is the last field of sync.Pool
	if f, ok := newFn.(*ssa.Function); ok && f == nil {
		return iface{}
	}
	return call(fr.i, fr, 0, newFn, nil)
}

func extPoolPut(fr *frame, args []value) value {
	p := args[0].(*value)
	pools[p] = append(pools[p], args[1])
	schedPoint(fr, "pool.put")
	return nil
}

func extOnceDo(fr *frame, args []value) value {
	p := args[0].(*value)
	st := (*p).(structure)
	// sync.Once{done atomic.Uint32 / uint32, m Mutex}: use field 0 as the flag
	switch d := st[0].(type) {
	case structure:
		// atomic.Uint32{_ noCopy, v uint32}
		if d[len(d)-1].(uint32) != 0 {
			return nil
		}
		d[len(d)-1] = uint32(1)
	case uint32:
		if d != 0 {
			return nil
		}
		st[0] = uint32(1)
	}
	call(fr.i, fr, 0, args[1], nil)
	return nil
}

func extAtomicAdd(fr *frame, a []value) value {
	p := a[0].(*value)
	schedPoint(fr, "atomic")
	*p = binop(tokADD, nil, *p, a[1])
	return *p
}
func extAtomicLoad(fr *frame, a []value) value {
	schedPoint(fr, "atomic")
	return *(a[0].(*value))
}
func extAtomicStore(fr *frame, a []value) value {
	schedPoint(fr, "atomic")
	*(a[0].(*value)) = a[1]
	return nil
}
func extAtomicCAS(fr *frame, a []value) value {
	schedPoint(fr, "atomic")
	p := a[0].(*value)
	var same bool
	if isSym(*p) || isSym(a[1]) {
		same = asBool(symBinop(tokEQL, nil, *p, a[1]))
	} else {
		same = equals(nil, *p, a[1])
	}
	if same {
		*p = a[2]
		return true
	}
	return false
}
func extAtomicSwap(fr *frame, a []value) value {
	schedPoint(fr, "atomic")
	p := a[0].(*value)
	old := *p
	*p = a[1]
	return old
}

// ---------- errors / fmt ----------

func mkError(fr *frame, msg string) value {
	ep := fr.i.prog.ImportedPackage("errors")
	T := ep.Type("errorString").Object().Type()
	var cell value = structure{msg}
	return iface{t: types.NewPointer(T), v: &cell}
}

func nativeArg(fr *frame, v value) interface{} {
	switch c := v.(type) {
	case iface:
		if c.t == nil {
			return nil
		}
		// error values: use their message
		if ms := fr.i.prog.MethodSets.MethodSet(c.t); ms != nil {
			if sel := ms.Lookup(nil, "Error"); sel != nil {
				if f := fr.i.prog.MethodValue(sel); f != nil {
					if s, ok := call(fr.i, fr, 0, f, []value{c.v}).(string); ok {
						return s
					}
				}
			}
		}
		return nativeArg(fr, c.v)
	case *Sym:
		return "<sym:" + c.name + ">"
	case []value:
		out := make([]interface{}, len(c))
		for i, e := range c {
			out[i] = nativeArg(fr, e)
		}
		return out
	case structure, array, *value:
		return toString(v)
	}
	return v
}

func sprintf(fr *frame, args []value) string {
	format := args[0].(string)
	var nargs []interface{}
	if len(args) > 1 && args[1] != nil {
		for _, a := range args[1].([]value) {
			nargs = append(nargs, nativeArg(fr, a))
		}
	}
	format = strings.ReplaceAll(format, "%w", "%v")
	return fmt.Sprintf(format, nargs...)
}

// fmt.Errorf: with %w and an error argument the result is a real *fmt.wrapError (its
// Error / Unwrap methods are executed from their SSA), otherwise an *errors.errorString
func extErrorf(fr *frame, args []value) value {
	msg := sprintf(fr, args)
	format := args[0].(string)
	if strings.Contains(format, "%w") && len(args) > 1 && args[1] != nil {
		for _, a := range args[1].([]value) {
			if e, ok := a.(iface); ok && e.t != nil {
				if ms := fr.i.prog.MethodSets.MethodSet(e.t); ms != nil && ms.Lookup(nil, "Error") != nil {
					T := fr.i.prog.ImportedPackage("fmt").Type("wrapError").Object().Type()
					var cell value = structure{msg, e}
					return iface{t: types.NewPointer(T), v: &cell}
				}
			}
		}
	}
	return mkError(fr, msg)
}

func unwrapErr(fr *frame, e iface) (iface, bool) {
	if e.t == nil {
		return iface{}, false
	}
	ms := fr.i.prog.MethodSets.MethodSet(e.t)
	if ms == nil {
		return iface{}, false
	}
	sel := ms.Lookup(nil, "Unwrap")
	if sel == nil {
		return iface{}, false
	}
	f := fr.i.prog.MethodValue(sel)
	if f == nil || f.Signature.Results().Len() != 1 {
		return iface{}, false
	}
	r, ok := call(fr.i, fr, 0, f, []value{e.v}).(iface)
	return r, ok && r.t != nil
}

func extErrorsIs(fr *frame, args []value) value {
	err, _ := args[0].(iface)
	target, _ := args[1].(iface)
	for guard := 0; guard < 64; guard++ {
		if err.t == nil {
			return target.t == nil
		}
		if target.t != nil && sameType(err.t, target.t) && equals(err.t, err.v, target.v) {
			return true
		}
		next, ok := unwrapErr(fr, err)
		if !ok {
			return false
		}
		err = next
	}
	return false
}

func extErrorsUnwrap(fr *frame, args []value) value {
	err, _ := args[0].(iface)
	if next, ok := unwrapErr(fr, err); ok {
		return next
	}
	return iface{}
}
func extSprintf(fr *frame, args []value) value { return sprintf(fr, args) }
func extErrorsNew(fr *frame, args []value) value {
	return mkError(fr, args[0].(string))
}

// sort.Slice / sort.SliceStable: the standard library's own pdqsort_func / stable_func (copied verbatim into
// pdqsort.go) driven by the real less closure, so that the order of ties — and the instability of sort.Slice beyond
// 12 elements — is the real one.
func extSortSlice(fr *frame, args []value) value { return sortSliceWith(fr, args, false) }
func extSortSliceStable(fr *frame, args []value) value { return sortSliceWith(fr, args, true) }

func sortSliceWith(fr *frame, args []value, stable bool) value {
	x := args[0].(iface).v.([]value)
	less := args[1]
	n := len(x)
	if n > 256 {
		panic(engineError{"sort.Slice on more than 256 elements is outside the sizes the harnesses were written for"})
	}
	data := lessSwap{
		Less: func(i, j int) bool { return asBool(call(fr.i, fr, 0, less, []value{i, j})) },
		Swap: func(i, j int) { x[i], x[j] = x[j], x[i] },
	}
	if stable {
		stable_func(data, n)
	} else {
		pdqsort_func(data, 0, n, bits.Len(uint(n)))
	}
	return nil
}

// ---------- math ----------

func extSqrt(fr *frame, args []value) value {
	if sx, ok := args[0].(*Sym); ok {
		return symSqrt64(sx)
	}
	return math.Sqrt(args[0].(float64))
}

func extAbs(fr *frame, args []value) value {
	if sx, ok := args[0].(*Sym); ok {
		return symAbs64(sx)
	}
	return math.Abs(args[0].(float64))
}

func extRound(fr *frame, args []value) value {
	if sx, ok := args[0].(*Sym); ok {
		return app(types.Float64, "fround", "f64_round", sx)
	}
	return math.Round(args[0].(float64))
}

func extRoundTo(fn string, native func(float64) float64) externalFn {
	return func(fr *frame, args []value) value {
		if sx, ok := args[0].(*Sym); ok {
			return app(types.Float64, "fround", fn, sx)
		}
		return native(args[0].(float64))
	}
}

func extLog(fr *frame, args []value) value {
	if sx, ok := args[0].(*Sym); ok {
		return app(types.Float64, "flog", "f64_log", sx)
	}
	return math.Log(args[0].(float64))
}

func extFloat32bits(fr *frame, args []value) value {
	if sx, ok := args[0].(*Sym); ok {
		return symFloatBits(sx)
	}
	return math.Float32bits(args[0].(float32))
}
func extFloat64bits(fr *frame, args []value) value {
	if sx, ok := args[0].(*Sym); ok {
		return symFloatBits(sx)
	}
	return math.Float64bits(args[0].(float64))
}
func extFloat32frombits(fr *frame, args []value) value {
	if sx, ok := args[0].(*Sym); ok {
		return symFloatFromBits(sx, types.Float32)
	}
	return math.Float32frombits(args[0].(uint32))
}
func extFloat64frombits(fr *frame, args []value) value {
	if sx, ok := args[0].(*Sym); ok {
		return symFloatFromBits(sx, types.Float64)
	}
	return math.Float64frombits(args[0].(uint64))
}

// math/rand/v2.Float64: while the harness has granted a budget the draw is a
// fresh symbolic input in [0,1); otherwise 0.75 (level 0 for every M >= 2).
func extRand(fr *frame, args []value) value {
	x := X
	if x.randBudget > 0 {
		x.randBudget--
		x.randCount++
		name := fmt.Sprintf("rand%d", x.randCount)
		if x.Concrete {
			if u, ok := x.Values[name]; ok {
				return math.Float64frombits(u)
			}
			return float64(0.75)
		}
		saveEI := x.EIMode
		x.EIMode = false
		s := NewInput(types.Float64, name)
		x.EIMode = saveEI
		if s.axiom == "" {
			s.axiom = fmt.Sprintf("(and (fp.leq %s %s) (fp.lt %s %s))", f64lit(0), s.name, s.name, f64lit(1))
			touch(s)
		}
		return s
	}
	return float64(0.75)
}

var randCalls int // reset per path (beginPath)

func nextRandCall() int { randCalls++; return randCalls }

func extRandPerm(fr *frame, args []value) value {
	n := asInt(args[0])
	c := nextRandCall()
	out := make([]value, n)
	for i := range out {
		out[i] = int((i + c) % n)
	}
	return out
}

func extRandIntN(fr *frame, args []value) value {
	n := asInt64(args[0])
	if n <= 0 {
		rtPanic("invalid argument to IntN")
	}
	c := int64(nextRandCall())
	return conv(fr.fn.Signature.Results().At(0).Type(), types.Typ[types.Int64], (c*7919+3)%n)
}

func extRandInt(fr *frame, args []value) value {
	c := int64(nextRandCall())
	return conv(fr.fn.Signature.Results().At(0).Type(), types.Typ[types.Int64], (c*2654435761+12345)&0x7fffffff)
}

func extRandShuffle(fr *frame, args []value) value {
	n := asInt(args[0])
	c := nextRandCall()
	for i := n - 1; i > 0; i-- {
		j := (i*7 + c) % (i + 1)
		call(fr.i, fr, 0, args[1], []value{i, j})
	}
	return nil
}

// ---------- encoding/binary (LittleEndian) ----------

func callMethod(fr *frame, recv iface, name string, args ...value) value {
	if recv.t == nil {
		panic("method invoked on nil interface")
	}
	sel := fr.i.prog.MethodSets.MethodSet(recv.t).Lookup(nil, name)
	if sel == nil {
		// unexported or pointer receiver
		sel = fr.i.prog.MethodSets.MethodSet(types.NewPointer(recv.t)).Lookup(nil, name)
	}
	if sel == nil {
		panic(engineError{"callMethod: no method " + name + " on " + recv.t.String()})
	}
	f := fr.i.prog.MethodValue(sel)
	return call(fr.i, fr, 0, f, append([]value{recv.v}, args...))
}

func sizeOfKind(k types.BasicKind) int {
	switch k {
	case types.Bool, types.Int8, types.Uint8:
		return 1
	case types.Int16, types.Uint16:
		return 2
	case types.Int32, types.Uint32, types.Float32:
		return 4
	case types.Int64, types.Uint64, types.Float64:
		return 8
	}
	panic(engineError{fmt.Sprint("binary: unsupported kind ", k)})
}

func bytesOfScalar(k types.BasicKind, v value) []value {
	n := sizeOfKind(k)
	out := make([]value, n)
	if k == types.Bool {
		if b, ok := v.(bool); ok {
			if b {
				out[0] = uint8(1)
			} else {
				out[0] = uint8(0)
			}
			return out
		}
		panic(engineError{"binary: symbolic bool"})
	}
	if isFloatK(k) {
		if s, ok := v.(*Sym); ok {
			v = symFloatBits(s)
		} else if k == types.Float32 {
			v = math.Float32bits(v.(float32))
		} else {
			v = math.Float64bits(v.(float64))
		}
	}
	for i := 0; i < n; i++ {
		out[i] = symByteOf(v, i)
	}
	return out
}

func scalarOfBytes(k types.BasicKind, bs []value) value {
	if k == types.Bool {
		if b, ok := bs[0].(uint8); ok {
			return b != 0
		}
		panic(engineError{"binary: symbolic bool byte"})
	}
	switch k {
	case types.Float32:
		u := symConcatBytes(types.Uint32, bs)
		if s, ok := u.(*Sym); ok {
			return symFloatFromBits(s, types.Float32)
		}
		return math.Float32frombits(u.(uint32))
	case types.Float64:
		u := symConcatBytes(types.Uint64, bs)
		if s, ok := u.(*Sym); ok {
			return symFloatFromBits(s, types.Float64)
		}
		return math.Float64frombits(u.(uint64))
	}
	return symConcatBytes(k, bs)
}

func extBinaryWrite(fr *frame, args []value) value {
	w := args[0].(iface)
	data := args[2].(iface)
	var bs []value
	switch t := data.t.Underlying().(type) {
	case *types.Basic:
		bs = bytesOfScalar(t.Kind(), data.v)
	case *types.Slice:
		ek := kindOfType(t.Elem())
		for _, e := range data.v.([]value) {
			bs = append(bs, bytesOfScalar(ek, e)...)
		}
	case *types.Array:
		ek := kindOfType(t.Elem())
		for _, e := range data.v.(array) {
			bs = append(bs, bytesOfScalar(ek, e)...)
		}
	case *types.Pointer:
		ek := kindOfType(t.Elem())
		bs = bytesOfScalar(ek, *(data.v.(*value)))
	default:
		panic(engineError{"binary.Write: unsupported data type " + data.t.String()})
	}
	if bs == nil {
		bs = []value{}
	}
	r := callMethod(fr, w, "Write", bs).(tuple)
	return r[1]
}

func extBinaryRead(fr *frame, args []value) value {
	r := args[0]
	data := args[2].(iface)
	readFull := fr.i.prog.ImportedPackage("io").Func("ReadFull")
	readN := func(n int) ([]value, value) {
		buf := make([]value, n)
		for i := range buf {
			buf[i] = uint8(0)
		}
		res := call(fr.i, fr, 0, readFull, []value{r, buf}).(tuple)
		return buf, res[1]
	}
	switch t := data.t.Underlying().(type) {
	case *types.Pointer:
		switch et := t.Elem().Underlying().(type) {
		case *types.Basic:
			k := et.Kind()
			buf, err := readN(sizeOfKind(k))
			if e := err.(iface); e.t != nil {
				return err
			}
			*(data.v.(*value)) = scalarOfBytes(k, buf)
			return iface{}
		case *types.Array:
			ek := kindOfType(et.Elem())
			sz := sizeOfKind(ek)
			arr := (*(data.v.(*value))).(array)
			buf, err := readN(sz * len(arr))
			if e := err.(iface); e.t != nil {
				return err
			}
			for i := range arr {
				arr[i] = scalarOfBytes(ek, buf[i*sz:(i+1)*sz])
			}
			return iface{}
		}
	case *types.Slice:
		ek := kindOfType(t.Elem())
		sz := sizeOfKind(ek)
		sl := data.v.([]value)
		buf, err := readN(sz * len(sl))
		if e := err.(iface); e.t != nil {
			return err
		}
		for i := range sl {
			sl[i] = scalarOfBytes(ek, buf[i*sz:(i+1)*sz])
		}
		return iface{}
	}
	panic(engineError{"binary.Read: unsupported data type " + data.t.String()})
}
