// Code in this file is copied from the Go standard library (go1.24.2, src/sort/zsortfunc.go and sort.go,
// Copyright The Go Authors, BSD-style licence — the same licence as ../interp/LICENSE) so that the engine's
// sort.Slice / sort.SliceStable intrinsics run the *real* pdqsort / stable algorithms: for more than 12
// elements pdqsort is not insertion sort and not stable, and code under test may (wrongly) rely on stability.
// Only the package clause and this header differ from the original.

package interp

import "math/bits"

type sortedHint int // hint for pdqsort when choosing the pivot

const (
	unknownHint sortedHint = iota
	increasingHint
	decreasingHint
)

// xorshift paper: https://www.jstatsoft.org/article/view/v008i14/xorshift.pdf
type xorshift uint64

func (r *xorshift) Next() uint64 {
	*r ^= *r << 13
	*r ^= *r >> 7
	*r ^= *r << 17
	return uint64(*r)
}

func nextPowerOfTwo(length int) uint {
	shift := uint(bits.Len(uint(length)))
	return uint(1 << shift)
}

// lessSwap is a pair of Less and Swap function for use with the
// auto-generated func-optimized variant of sort.go in
// zfuncversion.go.
type lessSwap struct {
	Less func(i, j int) bool
	Swap func(i, j int)
}

func insertionSort_func(data lessSwap, a, b int) {
	for i := a + 1; i < b; i++ {
		for j := i; j > a && data.Less(j, j-1); j-- {
			data.Swap(j, j-1)
		}
	}
}

// siftDown_func implements the heap property on data[lo:hi].
// first is an offset into the array where the root of the heap lies.
func siftDown_func(data lessSwap, lo, hi, first int) {
	root := lo
	for {
		child := 2*root + 1
		if child >= hi {
			break
		}
		if child+1 < hi && data.Less(first+child, first+child+1) {
			child++
		}
		if !data.Less(first+root, first+child) {
			return
		}
		data.Swap(first+root, first+child)
		root = child
	}
}

func heapSort_func(data lessSwap, a, b int) {
	first := a
	lo := 0
	hi := b - a

	// Build heap with greatest element at top.
	for i := (hi - 1) / 2; i >= 0; i-- {
		siftDown_func(data, i, hi, first)
	}

	// Pop elements, largest first, into end of data.
	for i := hi - 1; i >= 0; i-- {
		data.Swap(first, first+i)
		siftDown_func(data, lo, i, first)
	}
}

// pdqsort_func sorts data[a:b].
// The algorithm based on pattern-defeating quicksort(pdqsort), but without the optimizations from BlockQuicksort.
// pdqsort paper: https://arxiv.org/pdf/2106.05123.pdf
// C++ implementation: https://github.com/orlp/pdqsort
// Rust implementation: https://docs.rs/pdqsort/latest/pdqsort/
// limit is the number of allowed bad (very unbalanced) pivots before falling back to heapsort.
func pdqsort_func(data lessSwap, a, b, limit int) {
	const maxInsertion = 12

	var (
		wasBalanced    = true // whether the last partitioning was reasonably balanced
		wasPartitioned = true // whether the slice was already partitioned
	)

	for {
		length := b - a

		if length <= maxInsertion {
			insertionSort_func(data, a, b)
			return
		}

		// Fall back to heapsort if too many bad choices were made.
		if limit == 0 {
			heapSort_func(data, a, b)
			return
		}

		// If the last partitioning was imbalanced, we need to breaking patterns.
		if !wasBalanced {
			breakPatterns_func(data, a, b)
			limit--
		}

		pivot, hint := choosePivot_func(data, a, b)
		if hint == decreasingHint {
			reverseRange_func(data, a, b)
			// The chosen pivot was pivot-a elements after the start of the array.
			// After reversing it is pivot-a elements before the end of the array.
			// The idea came from Rust's implementation.
			pivot = (b - 1) - (pivot - a)
			hint = increasingHint
		}

		// The slice is likely already sorted.
		if wasBalanced && wasPartitioned && hint == increasingHint {
			if partialInsertionSort_func(data, a, b) {
				return
			}
		}

		// Probably the slice contains many duplicate elements, partition the slice into
		// elements equal to and elements greater than the pivot.
		if a > 0 && !data.Less(a-1, pivot) {
			mid := partitionEqual_func(data, a, b, pivot)
			a = mid
			continue
		}

		mid, alreadyPartitioned := partition_func(data, a, b, pivot)
		wasPartitioned = alreadyPartitioned

		leftLen, rightLen := mid-a, b-mid
		balanceThreshold := length / 8
		if leftLen < rightLen {
			wasBalanced = leftLen >= balanceThreshold
			pdqsort_func(data, a, mid, limit)
			a = mid + 1
		} else {
			wasBalanced = rightLen >= balanceThreshold
			pdqsort_func(data, mid+1, b, limit)
			b = mid
		}
	}
}

// partition_func does one quicksort partition.
// Let p = data[pivot]
// Moves elements in data[a:b] around, so that data[i]<p and data[j]>=p for i<newpivot and j>newpivot.
// On return, data[newpivot] = p
func partition_func(data lessSwap, a, b, pivot int) (newpivot int, alreadyPartitioned bool) {
	data.Swap(a, pivot)
	i, j := a+1, b-1 // i and j are inclusive of the elements remaining to be partitioned

	for i <= j && data.Less(i, a) {
		i++
	}
	for i <= j && !data.Less(j, a) {
		j--
	}
	if i > j {
		data.Swap(j, a)
		return j, true
	}
	data.Swap(i, j)
	i++
	j--

	for {
		for i <= j && data.Less(i, a) {
			i++
		}
		for i <= j && !data.Less(j, a) {
			j--
		}
		if i > j {
			break
		}
		data.Swap(i, j)
		i++
		j--
	}
	data.Swap(j, a)
	return j, false
}

// partitionEqual_func partitions data[a:b] into elements equal to data[pivot] followed by elements greater than data[pivot].
// It assumed that data[a:b] does not contain elements smaller than the data[pivot].
func partitionEqual_func(data lessSwap, a, b, pivot int) (newpivot int) {
	data.Swap(a, pivot)
	i, j := a+1, b-1 // i and j are inclusive of the elements remaining to be partitioned

	for {
		for i <= j && !data.Less(a, i) {
			i++
		}
		for i <= j && data.Less(a, j) {
			j--
		}
		if i > j {
			break
		}
		data.Swap(i, j)
		i++
		j--
	}
	return i
}

// partialInsertionSort_func partially sorts a slice, returns true if the slice is sorted at the end.
func partialInsertionSort_func(data lessSwap, a, b int) bool {
	const (
		maxSteps         = 5  // maximum number of adjacent out-of-order pairs that will get shifted
		shortestShifting = 50 // don't shift any elements on short arrays
	)
	i := a + 1
	for j := 0; j < maxSteps; j++ {
		for i < b && !data.Less(i, i-1) {
			i++
		}

		if i == b {
			return true
		}

		if b-a < shortestShifting {
			return false
		}

		data.Swap(i, i-1)

		// Shift the smaller one to the left.
		if i-a >= 2 {
			for j := i - 1; j >= 1; j-- {
				if !data.Less(j, j-1) {
					break
				}
				data.Swap(j, j-1)
			}
		}
		// Shift the greater one to the right.
		if b-i >= 2 {
			for j := i + 1; j < b; j++ {
				if !data.Less(j, j-1) {
					break
				}
				data.Swap(j, j-1)
			}
		}
	}
	return false
}

// breakPatterns_func scatters some elements around in an attempt to break some patterns
// that might cause imbalanced partitions in quicksort.
func breakPatterns_func(data lessSwap, a, b int) {
	length := b - a
	if length >= 8 {
		random := xorshift(length)
		modulus := nextPowerOfTwo(length)

		for idx := a + (length/4)*2 - 1; idx <= a+(length/4)*2+1; idx++ {
			other := int(uint(random.Next()) & (modulus - 1))
			if other >= length {
				other -= length
			}
			data.Swap(idx, a+other)
		}
	}
}

// choosePivot_func chooses a pivot in data[a:b].
//
// [0,8): chooses a static pivot.
// [8,shortestNinther): uses the simple median-of-three method.
// [shortestNinther,∞): uses the Tukey ninther method.
func choosePivot_func(data lessSwap, a, b int) (pivot int, hint sortedHint) {
	const (
		shortestNinther = 50
		maxSwaps        = 4 * 3
	)

	l := b - a

	var (
		swaps int
		i     = a + l/4*1
		j     = a + l/4*2
		k     = a + l/4*3
	)

	if l >= 8 {
		if l >= shortestNinther {
			// Tukey ninther method, the idea came from Rust's implementation.
			i = medianAdjacent_func(data, i, &swaps)
			j = medianAdjacent_func(data, j, &swaps)
			k = medianAdjacent_func(data, k, &swaps)
		}
		// Find the median among i, j, k and stores it into j.
		j = median_func(data, i, j, k, &swaps)
	}

	switch swaps {
	case 0:
		return j, increasingHint
	case maxSwaps:
		return j, decreasingHint
	default:
		return j, unknownHint
	}
}

// order2_func returns x,y where data[x] <= data[y], where x,y=a,b or x,y=b,a.
func order2_func(data lessSwap, a, b int, swaps *int) (int, int) {
	if data.Less(b, a) {
		*swaps++
		return b, a
	}
	return a, b
}

// median_func returns x where data[x] is the median of data[a],data[b],data[c], where x is a, b, or c.
func median_func(data lessSwap, a, b, c int, swaps *int) int {
	a, b = order2_func(data, a, b, swaps)
	b, c = order2_func(data, b, c, swaps)
	a, b = order2_func(data, a, b, swaps)
	return b
}

// medianAdjacent_func finds the median of data[a - 1], data[a], data[a + 1] and stores the index into a.
func medianAdjacent_func(data lessSwap, a int, swaps *int) int {
	return median_func(data, a-1, a, a+1, swaps)
}

func reverseRange_func(data lessSwap, a, b int) {
	i := a
	j := b - 1
	for i < j {
		data.Swap(i, j)
		i++
		j--
	}
}

func swapRange_func(data lessSwap, a, b, n int) {
	for i := 0; i < n; i++ {
		data.Swap(a+i, b+i)
	}
}

func stable_func(data lessSwap, n int) {
	blockSize := 20 // must be > 0
	a, b := 0, blockSize
	for b <= n {
		insertionSort_func(data, a, b)
		a = b
		b += blockSize
	}
	insertionSort_func(data, a, n)

	for blockSize < n {
		a, b = 0, 2*blockSize
		for b <= n {
			symMerge_func(data, a, a+blockSize, b)
			a = b
			b += 2 * blockSize
		}
		if m := a + blockSize; m < n {
			symMerge_func(data, a, m, n)
		}
		blockSize *= 2
	}
}

// symMerge_func merges the two sorted subsequences data[a:m] and data[m:b] using
// the SymMerge algorithm from Pok-Son Kim and Arne Kutzner, "Stable Minimum
// Storage Merging by Symmetric Comparisons", in Susanne Albers and Tomasz
// Radzik, editors, Algorithms - ESA 2004, volume 3221 of Lecture Notes in
// Computer Science, pages 714-723. Springer, 2004.
//
// Let M = m-a and N = b-n. Wolog M < N.
// The recursion depth is bound by ceil(log(N+M)).
// The algorithm needs O(M*log(N/M + 1)) calls to data.Less.
// The algorithm needs O((M+N)*log(M)) calls to data.Swap.
//
// The paper gives O((M+N)*log(M)) as the number of assignments assuming a
// rotation algorithm which uses O(M+N+gcd(M+N)) assignments. The argumentation
// in the paper carries through for Swap operations, especially as the block
// swapping rotate uses only O(M+N) Swaps.
//
// symMerge assumes non-degenerate arguments: a < m && m < b.
// Having the caller check this condition eliminates many leaf recursion calls,
// which improves performance.
func symMerge_func(data lessSwap, a, m, b int) {
	// Avoid unnecessary recursions of symMerge
	// by direct insertion of data[a] into data[m:b]
	// if data[a:m] only contains one element.
	if m-a == 1 {
		// Use binary search to find the lowest index i
		// such that data[i] >= data[a] for m <= i < b.
		// Exit the search loop with i == b in case no such index exists.
		i := m
		j := b
		for i < j {
			h := int(uint(i+j) >> 1)
			if data.Less(h, a) {
				i = h + 1
			} else {
				j = h
			}
		}
		// Swap values until data[a] reaches the position before i.
		for k := a; k < i-1; k++ {
			data.Swap(k, k+1)
		}
		return
	}

	// Avoid unnecessary recursions of symMerge
	// by direct insertion of data[m] into data[a:m]
	// if data[m:b] only contains one element.
	if b-m == 1 {
		// Use binary search to find the lowest index i
		// such that data[i] > data[m] for a <= i < m.
		// Exit the search loop with i == m in case no such index exists.
		i := a
		j := m
		for i < j {
			h := int(uint(i+j) >> 1)
			if !data.Less(m, h) {
				i = h + 1
			} else {
				j = h
			}
		}
		// Swap values until data[m] reaches the position i.
		for k := m; k > i; k-- {
			data.Swap(k, k-1)
		}
		return
	}

	mid := int(uint(a+b) >> 1)
	n := mid + m
	var start, r int
	if m > mid {
		start = n - b
		r = mid
	} else {
		start = a
		r = m
	}
	p := n - 1

	for start < r {
		c := int(uint(start+r) >> 1)
		if !data.Less(p-c, c) {
			start = c + 1
		} else {
			r = c
		}
	}

	end := n - start
	if start < m && m < end {
		rotate_func(data, start, m, end)
	}
	if a < start && start < mid {
		symMerge_func(data, a, start, mid)
	}
	if mid < end && end < b {
		symMerge_func(data, mid, end, b)
	}
}

// rotate_func rotates two consecutive blocks u = data[a:m] and v = data[m:b] in data:
// Data of the form 'x u v y' is changed to 'x v u y'.
// rotate performs at most b-a many calls to data.Swap,
// and it assumes non-degenerate arguments: a < m && m < b.
func rotate_func(data lessSwap, a, m, b int) {
	i := m - a
	j := b - m

	for i != j {
		if i > j {
			swapRange_func(data, m-i, m, j)
			i -= j
		} else {
			swapRange_func(data, m-i, m+j-i, i)
			j -= i
		}
	}
	// i == j
	swapRange_func(data, m-i, m, i)
}
