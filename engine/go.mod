module gosymex

go 1.24.2

require (
	github.com/clipperhouse/uax29/v2 v2.2.0
	golang.org/x/text v0.30.0
	golang.org/x/tools v0.37.0
)

require (
	golang.org/x/mod v0.28.0 // indirect
	golang.org/x/sync v0.17.0 // indirect
)

replace golang.org/x/tools => golang.org/x/tools v0.29.0

replace golang.org/x/mod => golang.org/x/mod v0.22.0

replace golang.org/x/sync => golang.org/x/sync v0.10.0
