//go:build verif

package comet

// Reference model and layered oracle shared by the vector-index harnesses
// (C01, C02, C12, C13): selection is asserted on the raw distances the
// harness recomputes with the index's own Distance, scores as the aggregation
// rule applied to those distances.  Whether Calculate is the metric is C18's
// obligation.

type vRefEntry struct {
	id   uint32
	vec  []float32 // stored (preprocessed) copy
	live bool
}

type vRef struct {
	dist    Distance
	entries []vRefEntry
	// score the index kind defines for a stored entry (default: the metric distance)
	scoreFn func(pq []float32, e *vRefEntry) float32
}

func vNewRef(kind DistanceKind) *vRef {
	d, _ := NewDistance(kind)
	m := &vRef{dist: d}
	m.scoreFn = func(pq []float32, e *vRefEntry) float32 { return m.dist.Calculate(pq, e.vec) }
	return m
}

func (m *vRef) liveCount() int {
	n := 0
	for _, e := range m.entries {
		if e.live {
			n++
		}
	}
	return n
}

func (m *vRef) find(id uint32) *vRefEntry {
	for i := range m.entries {
		if m.entries[i].id == id {
			return &m.entries[i]
		}
	}
	return nil
}

// vAddBoth adds raw under id to the index and to the model; under cosine an
// Add whose norm is 0 must fail and change nothing.
func vAddBoth(idx VectorIndex, m *vRef, id uint32, raw []float32) bool {
	cp := vCopy(raw)
	err := idx.Add(*NewVectorNodeWithID(id, raw))
	stored, perr := m.dist.Preprocess(cp)
	vAssert((err == nil) == (perr == nil), "add-error-iff-preprocess-error")
	if err != nil {
		return false
	}
	// an update (re-add of a removed id): the dead entry of that id is superseded
	var keep []vRefEntry
	for _, e := range m.entries {
		if e.id != id || e.live {
			keep = append(keep, e)
		}
	}
	m.entries = append(keep, vRefEntry{id, stored, true})
	return true
}

func vRemoveBoth(idx VectorIndex, m *vRef, id uint32) {
	err := idx.Remove(*NewVectorNodeWithID(id, nil))
	e := m.find(id)
	ok := e != nil && e.live
	vAssert((err == nil) == ok, "remove-error-iff-unknown-or-removed")
	if ok {
		e.live = false
	}
}

// vFlushBoth flushes; the model drops dead entries (ids may be re-added later).
func vFlushBoth(idx VectorIndex, m *vRef) {
	vAssert(idx.Flush() == nil, "flush-error")
	var keep []vRefEntry
	for _, e := range m.entries {
		if e.live {
			keep = append(keep, e)
		}
	}
	m.entries = keep
}

type vElig struct {
	id uint32
	d  float32
}

// vEligible: live entries inside the id restriction whose distance passes the
// threshold (a threshold <= 0 is "no threshold").
func (m *vRef) eligible(pq []float32, th float32, filt []uint32) []vElig {
	var E []vElig
	for i := range m.entries {
		e := &m.entries[i]
		if !e.live {
			continue
		}
		if len(filt) > 0 {
			in := false
			for _, f := range filt {
				if f == e.id {
					in = true
				}
			}
			if !in {
				continue
			}
		}
		d := m.scoreFn(pq, e)
		vAssume(d == d) // finite vectors: NaN only through overflow (Inf-Inf), outside the property
		if th > 0 && d > th {
			continue
		}
		E = append(E, vElig{e.id, d})
	}
	return E
}

// vCheckSound: every result is eligible, carries score = sum-aggregation of its
// distance (float32(0)+d), appears once, ascending order, at most k (k > 0).
func vCheckSound(res []VectorResult, E []vElig, k int) {
	if k > 0 {
		vAssert(len(res) <= k, "at-most-k")
	}
	for i, r := range res {
		ok := false
		for _, e := range E {
			if e.id == r.GetId() {
				ok = true
				vAssert(vSameF32(r.Score, float32(0)+e.d), "score-is-distance")
			}
		}
		vAssert(ok, "result-eligible")
		for j := 0; j < i; j++ {
			vAssert(res[j].GetId() != r.GetId(), "result-unique")
		}
		if i > 0 {
			vAssert(!(r.Score < res[i-1].Score), "ascending-order")
		}
	}
}

// vCheckExact: vCheckSound + exact count + selection layer in raw distances
// (nothing left out is strictly nearer than anything returned; ties free).
func vCheckExact(res []VectorResult, E []vElig, k int) {
	want := len(E)
	if k > 0 && k <= len(E) {
		want = k
	}
	vAssert(len(res) == want, "exact-count")
	vCheckSound(res, E, k)
	for _, e := range E {
		ret := false
		for _, r := range res {
			if r.GetId() == e.id {
				ret = true
			}
		}
		if ret {
			continue
		}
		for _, r := range res {
			for _, e2 := range E {
				if e2.id == r.GetId() {
					vAssert(!(e.d < e2.d), "top-k-selection")
				}
			}
		}
	}
}

// vFilter: a symbolic id restriction over the given ids plus one foreign id.
func vFilter(ids []uint32, foreign uint32) []uint32 {
	var filt []uint32
	for i, id := range ids {
		if vChoose(vName("filt", i), 2) == 1 {
			filt = append(filt, id)
		}
	}
	if vChoose("filt_foreign", 2) == 1 {
		filt = append(filt, foreign)
	}
	return filt
}

// vSameResults: two result lists are the same answer up to tie-breaking:
// equal length, the same score at every rank, and every id of one list is in
// the other with the same score or sits in a tie with the other's last score.
func vSameResults(a, b []VectorResult, label string) {
	vAssert(len(a) == len(b), label+"-len")
	if len(a) != len(b) {
		return
	}
	for i := range a {
		vAssert(vSameF32(a[i].Score, b[i].Score), label+"-score-at-rank")
	}
	chk := func(x, y []VectorResult) {
		for _, r := range x {
			ok := false
			for _, s := range y {
				if s.GetId() == r.GetId() {
					ok = vOr(ok, vSameF32(r.Score, s.Score))
				}
			}
			if len(y) > 0 {
				ok = vOr(ok, vSameF32(r.Score, y[len(y)-1].Score))
			}
			vAssert(ok, label+"-id")
		}
	}
	chk(a, b)
	chk(b, a)
}
