//go:build verif

package comet

// Harness primitives.  Under gosymex every function below is intercepted by
// name (its body is never executed); the bodies are the *native replay*
// semantics: values come from the replay file named by VERIF_REPLAY.

import (
	"encoding/json"
	"fmt"
	"math"
	"os"
	"strconv"
	"strings"
	"time"
)

type vChoice struct {
	Name string `json:"name"`
	Val  int    `json:"val"`
}

type vReplayFile struct {
	Harness string            `json:"harness"`
	Label   string            `json:"label"`
	Inputs  map[string]uint64 `json:"inputs"`
	Chooses []vChoice         `json:"chooses"`
}

type vAssumeFailed struct{ what string }
type vAssertFailed struct{ label string }

var (
	vReplay    vReplayFile
	vChoosePos int
	vObserved  []string
	vCovers    = map[string]int{}
	vTags      []string
	vRandLeft  int
	vRandCount int
)

func vLoadReplay(path string) error {
	b, err := os.ReadFile(path)
	if err != nil {
		return err
	}
	vReplay = vReplayFile{}
	if err := json.Unmarshal(b, &vReplay); err != nil {
		return err
	}
	vResetRun()
	return nil
}

func vResetRun() {
	vChoosePos = 0
	vObserved = nil
	vTags = nil
	vRandLeft, vRandCount = 0, 0
}

func vBits(name string) uint64 { return vReplay.Inputs[name] }

func vF32(name string) float32 { return math.Float32frombits(uint32(vBits(name))) }
func vF64(name string) float64 { return math.Float64frombits(vBits(name)) }
func vInt(name string) int     { return int(vBits(name)) }
func vI64(name string) int64   { return int64(vBits(name)) }
func vU8(name string) uint8    { return uint8(vBits(name)) }
func vU16(name string) uint16  { return uint16(vBits(name)) }
func vU32(name string) uint32  { return uint32(vBits(name)) }
func vU64(name string) uint64  { return vBits(name) }
func vBool(name string) bool   { return vBits(name) != 0 }

func vChoose(name string, n int) int {
	if vChoosePos < len(vReplay.Chooses) {
		c := vReplay.Chooses[vChoosePos]
		vChoosePos++
		if c.Name != name || c.Val >= n {
			panic(vAssumeFailed{fmt.Sprintf("replay choice mismatch: want %s<%d, file has %s=%d", name, n, c.Name, c.Val)})
		}
		return c.Val
	}
	return 0
}

func vAssume(b bool) {
	if !b {
		panic(vAssumeFailed{"assumption false"})
	}
}

func vAssert(b bool, label string) {
	if !b {
		panic(vAssertFailed{label})
	}
}

func vCover(label string)           { vCovers[label]++ }
func vTag(tag string)               { vTags = append(vTags, tag) }
func vObserve(name string, v any)   { vObserved = append(vObserved, name+"="+vObsString(v)) }
func vSymbolic() bool               { return false }
func vRandBudget(n int)             { vRandLeft = n }

// vMapOrder(true): from here on the engine ranges over maps in the opposite of its usual (sorted-key) order — another
// legal Go order; natively Go randomises map iteration anyway
func vMapOrder(reverse bool) {}
func vAnd(a, b bool) bool           { return a && b }
func vOr(a, b bool) bool            { return a || b }
func vNot(a bool) bool              { return !a }
func vImplies(a, b bool) bool       { return !a || b }
func vSameF32(a, b float32) bool    { return a == b || (a != a && b != b) }
func vSameF64(a, b float64) bool    { return a == b || (a != a && b != b) }
func vFinite32(x float32) bool      { return !math.IsInf(float64(x), 0) && x == x }
func vFinite64(x float64) bool      { return !math.IsInf(x, 0) && x == x }
func vConcrete(v any) bool          { return true }
// vYield: under gosymex the pending background signals are served before the caller continues; natively the
// background workers get 150 ms to do the same (the replayed path assumed they finished).
func vYield() { time.Sleep(150 * time.Millisecond) }
func vPreempt(n int)                {}
func vThreads() int                 { return 1 }
func vIteF32(c bool, a, b float32) float32 {
	if c {
		return a
	}
	return b
}
func vIteF64(c bool, a, b float64) float64 {
	if c {
		return a
	}
	return b
}
func vIteInt(c bool, a, b int) int {
	if c {
		return a
	}
	return b
}

// vF16Spec: bits encode the IEEE binary16 value nearest (ties to even) to x.
// Natively this is only used for replay, via the real library's own result
// compared with a bit-by-bit reference conversion.
func vF16Spec(bits uint16, x float32) bool { return vRefF32ToF16(x) == bits || (x != x && (bits&0x7c00) == 0x7c00 && bits&0x3ff != 0) }
func vF16ToF32Spec(bits uint16, y float32) bool {
	r := vRefF16ToF32(bits)
	return r == y || (r != r && y != y)
}

func vRefF16ToF32(h uint16) float32 {
	sign := uint32(h>>15) << 31
	exp := int((h >> 10) & 0x1f)
	man := uint32(h & 0x3ff)
	switch {
	case exp == 0x1f:
		if man == 0 {
			return math.Float32frombits(sign | 0x7f800000)
		}
		return float32(math.NaN())
	case exp == 0:
		f := float32(man) * float32(math.Ldexp(1, -24))
		if sign != 0 {
			f = -f
		}
		return f
	}
	return math.Float32frombits(sign | uint32(exp-15+127)<<23 | man<<13)
}

func vRefF32ToF16(x float32) uint16 {
	if x != x {
		return 0x7e00
	}
	// search: monotone, so a binary search over the 2^15 non-negative patterns suffices
	a := x
	sign := uint16(0)
	if math.Signbit(float64(x)) {
		sign = 0x8000
		a = -x
	}
	lo, hi := uint16(0), uint16(0x7c00) // hi = +Inf
	for lo < hi {
		mid := lo + (hi-lo)/2
		if vRefF16ToF32(mid) < a {
			lo = mid + 1
		} else {
			hi = mid
		}
	}
	// lo = smallest pattern >= a
	best := lo
	if lo > 0 {
		up := float64(vRefF16ToF32(lo))
		if lo == 0x7c00 {
			up = 65536 // the value binary16 overflow is rounded against
		}
		dn := float64(vRefF16ToF32(lo - 1))
		du, dd := up-float64(a), float64(a)-dn
		if dd < du || (dd == du && (lo-1)&1 == 0) {
			best = lo - 1
		}
	}
	return sign | best
}

func vObsString(v any) string {
	switch c := v.(type) {
	case float32:
		return fmt.Sprintf("f32:%08x", math.Float32bits(c))
	case float64:
		return fmt.Sprintf("f64:%016x", math.Float64bits(c))
	}
	return fmt.Sprint(v)
}

func vName(prefix string, idx ...int) string {
	s := prefix
	for _, i := range idx {
		s += "_" + strconv.Itoa(i)
	}
	return s
}

// vRunNative runs harness h under the loaded replay file and reports the outcome.
func vRunNative(h func()) (outcome string) {
	defer func() {
		if r := recover(); r != nil {
			switch p := r.(type) {
			case vAssertFailed:
				outcome = "ASSERT-FAIL " + p.label
				if len(vTags) > 0 {
					outcome += " tags=" + strings.Join(vTags, ",")
				}
			case vAssumeFailed:
				outcome = "ASSUME-FAIL " + p.what
			default:
				outcome = fmt.Sprintf("PANIC %v", r)
			}
		}
	}()
	vResetRun()
	defer vCleanupTempDirs()
	h()
	return "OK"
}

// vHarnesses is the registry used by the native replay test.
var vHarnesses = map[string]func(){}

var vReplayAttempts = 5

func vUseLemma(name string) {}

func vI8(name string) int8 { return int8(vBits(name)) }

// vGrid32: a float32 on the dyadic grid {k/4 : -32 <= k < 32} (T2-grid domain, DESIGN.md §3.3).
func vGrid32(name string) float32 {
	k := vI8(name)
	vAssume(vAnd(k >= -32, k < 32))
	return float32(k) / 4
}

// vExpectLevel mirrors the engine's model of math/rand/v2.Float64 for HNSW
// level draws: natively it returns the level the replay file's draws imply for
// the next Add (so the native run can be retried until the real random levels
// match); under gosymex it returns -1 (levels are decided by the symbolic draws).
func vExpectLevel(M int) int {
	level := 0
	for vRandLeft > 0 && level < 16 {
		vRandLeft--
		vRandCount++
		r := vF64("rand" + strconv.Itoa(vRandCount))
		if _, ok := vReplay.Inputs["rand"+strconv.Itoa(vRandCount)]; !ok {
			r = 0.75
		}
		if r < 1.0/float64(M) {
			level++
		} else {
			break
		}
	}
	return level
}

// ---- storage tier: file-system model controls (no-ops natively; the native run uses the real file system) ----

func vTempDir() string {
	d, err := os.MkdirTemp("", "verif-store-")
	if err != nil {
		panic(err)
	}
	vTempDirs = append(vTempDirs, d)
	return d
}

var vTempDirs []string

func vCleanupTempDirs() {
	for _, d := range vTempDirs {
		os.RemoveAll(d)
	}
	vTempDirs = nil
}

func vFSFailAt(n int)  { panic(vAssumeFailed{"fault injection is only available in the file-system model"}) }
func vFSCrashAt(n int) { panic(vAssumeFailed{"crash points are only available in the file-system model"}) }
func vFSOps() int      { return 0 }

// vFSSched makes file-system calls scheduling points under gosymex (1: name-space operations, 2: reads and
// writes too); natively the operating system pre-empts wherever it likes.
func vFSSched(level int) {}

// vGzipReadChunk(n): from here on the engine's gzip readers deliver at most n bytes per Read call (0: fill the buffer).
// Natively the real gzip reader decides (one 32 KiB window per call at most).
func vGzipReadChunk(n int) {}

// vFSSnapshot / vFSRestore: the image of the harness' temporary directories at this instant / put it back
var vFSSnaps []map[string][]byte

func vFSSnapshot() int {
	snap := map[string][]byte{}
	for _, d := range vTempDirs {
		es, _ := os.ReadDir(d)
		for _, e := range es {
			if b, err := os.ReadFile(d + "/" + e.Name()); err == nil {
				snap[d+"/"+e.Name()] = b
			}
		}
	}
	vFSSnaps = append(vFSSnaps, snap)
	return len(vFSSnaps) - 1
}

func vFSRestore(h int) {
	for _, d := range vTempDirs {
		es, _ := os.ReadDir(d)
		for _, e := range es {
			os.Remove(d + "/" + e.Name())
		}
	}
	for p, b := range vFSSnaps[h] {
		os.WriteFile(p, b, 0644)
	}
}

func vFSReadAll(path string) []byte { b, _ := os.ReadFile(path); return b }
func vFSWriteAll(path string, b []byte) { os.WriteFile(path, b, 0644) }

func vFSExists(path string) bool {
	_, err := os.Stat(path)
	return err == nil
}
func vFSList() string {
	var out string
	for _, d := range vTempDirs {
		es, _ := os.ReadDir(d)
		for _, e := range es {
			out += e.Name() + ","
		}
	}
	return out
}
func vFSTruncate(path string, n int) { os.Truncate(path, int64(n)) }
func vFSSize(path string) int {
	st, err := os.Stat(path)
	if err != nil {
		return -1
	}
	return int(st.Size())
}
func vFSRemove(path string)             { os.Remove(path) }
func vFSLog() string                    { return "" }
func vRunUntilCrash(f func()) bool      { f(); return false }
func vSchedFork(on bool) {}
func vFSOverwrites() int { return 0 }
func vFSWrite(path string, data []byte) { os.WriteFile(path, data, 0644) }
func vLockset(on bool) {}
