//go:build verif

package comet

// C09 — data acknowledged by Flush or Close survives a restart.

func init() {
	vHarnesses["H_C09_restart"] = H_C09_restart
	vHarnesses["H_C09_restart_orders"] = H_C09_restart_orders
}

type vStoreDoc struct {
	id   uint32
	vec  float32
	text string
	c    string
}

var vStoreDocs = []vStoreDoc{{11, 1, "tick fox", "x"}, {12, 5, "dog", "y"}, {13, 9, "cat fox", "x"}, {14, 13, "emu", "z"}}

// template kinds for the store: 0 flat + text + metadata, 1 hnsw + text, 2 trained ivf + metadata, 3 flat only
var vStoreTemplates int

func vFreshStoreCfg(dir string, tinyMemtables bool) *StorageConfig {
	cfg := vStoreCfg(dir) // fresh template objects on every call
	switch vStoreTemplates {
	case 1:
		h, _ := NewHNSWIndex(1, L2Squared, 2, 8, 8)
		cfg.VectorIndexTemplate = h
		cfg.MetadataIndexTemplate = nil
	case 2:
		ivf, _ := NewIVFIndex(1, 2, L2Squared)
		ivf.centroids = [][]float32{{2}, {10}}
		ivf.trained = true
		cfg.VectorIndexTemplate = ivf
		cfg.TextIndexTemplate = nil
	case 3:
		cfg.TextIndexTemplate = nil
		cfg.MetadataIndexTemplate = nil
	}
	if tinyMemtables {
		cfg.MemtableSizeLimit = 1 // every document rotates the memtable
	}
	cfg.FlushThreshold = 1 << 40 // no size-triggered background flush: flushes are explicit
	return cfg
}

// vFoundEverywhere: the document is found through a vector query, a token query and a metadata query
func vStoreFinds(s *PersistentHybridIndex, d vStoreDoc, label string) {
	rv, e1 := s.NewSearch().WithVector([]float32{d.vec}).WithK(10).WithNProbes(2).Execute()
	vAssert(e1 == nil, label+"-vector-search-ok")
	okv := false
	for _, r := range rv {
		if r.ID == d.id {
			okv = true
		}
	}
	vAssert(okv, label+"-found-by-vector")
	if s.config.TextIndexTemplate != nil {
		tok := tokenize(normalize(d.text))[0]
		rt, e2 := s.NewSearch().WithText(tok).WithK(10).Execute()
		vAssert(e2 == nil, label+"-text-search-ok")
		okt := false
		for _, r := range rt {
			if r.ID == d.id {
				okt = true
			}
		}
		vAssert(okt, label+"-found-by-text")
	}
	if s.config.MetadataIndexTemplate != nil {
		rm, e3 := s.NewSearch().WithMetadata(Eq("c", d.c)).WithK(10).Execute()
		vAssert(e3 == nil, label+"-metadata-search-ok")
		okm := false
		for _, r := range rm {
			if r.ID == d.id {
				okm = true
			}
		}
		vAssert(okm, label+"-found-by-metadata")
	}
}

func vSegmentFiles(dir string) int {
	n := 0
	for id := 1; id <= 9; id++ {
		if vFSExists(dir + "/hybrid_00000" + string(rune('0'+id)) + ".bin.gz") {
			n++
		}
	}
	return n
}

// ( add* [Flush] )* Close, then reopen with FRESH templates; 1..3 sessions
// two segments written by two sessions, third session with fresh templates: every
// order in which the per-segment search goroutines load and search their segment
func H_C09_restart_orders() {
	vStoreTemplates = 3
	vTag("templates_3")
	dir := vTempDir()
	for sn := 0; sn < 2; sn++ {
		s, err := OpenPersistentHybridIndex(vFreshStoreCfg(dir, false))
		vAssert(err == nil, "open-ok")
		d := vStoreDocs[sn]
		vAssert(s.AddWithID(d.id, []float32{d.vec}, d.text, map[string]interface{}{"c": d.c}) == nil, "add-ok")
		vAssert(s.Close() == nil, "close-ok")
	}
	s, err := OpenPersistentHybridIndex(vFreshStoreCfg(dir, false))
	vAssert(err == nil, "open-ok")
	vTag("two-or-more-segments")
	vSchedFork(true) // the first search loads both segments: every order of the per-segment goroutines
	_, e0 := s.NewSearch().WithVector([]float32{1}).WithK(10).Execute()
	vSchedFork(false)
	vAssert(e0 == nil, "search-ok")
	for _, d := range vStoreDocs[:2] { // now served from the cached segments
		vStoreFinds(s, d, "after-restart")
	}
	vAssert(s.Close() == nil, "close-ok")
	vCover("ran")
}

var vC09Sessions = 0

func H_C09_restart() {
	vStoreTemplates = vChoose("templates", 4)
	vTag(vName("templates", vStoreTemplates))
	dir := vTempDir()
	tiny := vChoose("tiny_memtables", 2) == 1
	sessions := 2 + vChoose("sessions", 3)

	var durable []vStoreDoc
	next := 0
	for sn := 0; sn < sessions; sn++ {
		s, err := OpenPersistentHybridIndex(vFreshStoreCfg(dir, tiny))
		vAssert(err == nil, "open-ok")
		if err != nil {
			return
		}
		segs := vSegmentFiles(dir)
		if segs >= 2 {
			vTag("two-or-more-segments")
		}
		for _, d := range durable {
			vStoreFinds(s, d, "after-restart")
		}
		if sn == sessions-1 {
			vAssert(s.Close() == nil, "close-ok")
			break
		}
		if vChoose(vName("early_flush", sn), 2) == 1 {
			vAssert(s.Flush() == nil, "flush-ok") // nothing to write yet
		}
		nadd := 1 + vChoose(vName("adds", sn), 2)
		var added []vStoreDoc
		for a := 0; a < nadd && next < len(vStoreDocs); a++ {
			d := vStoreDocs[next]
			next++
			vAssert(s.AddWithID(d.id, []float32{d.vec}, d.text, map[string]interface{}{"c": d.c}) == nil, "add-ok")
			added = append(added, d)
		}
		if vChoose(vName("flush", sn), 2) == 1 {
			vAssert(s.Flush() == nil, "flush-ok")
			vTag(vName("flushed", sn))
		}
		vAssert(s.Close() == nil, "close-ok")
		durable = append(durable, added...) // Close returned nil: everything added before it is durable
		vAssert(!vFSExists(dir+"/LOCK"), "close-releases-the-lock")
	}
	vAssert(vFSOverwrites() == 0, "segment-files-never-overwritten")
	vCover("ran")
}

func init() { vHarnesses["H_C09_ids"] = H_C09_ids }

func vSegName(kind string, id int) string {
	// %06d: at least six digits
	ds := ""
	for n := id; n > 0; n /= 10 {
		ds = string(rune('0'+n%10)) + ds
	}
	for len(ds) < 6 {
		ds = "0" + ds
	}
	return kind + "_" + ds + ".bin.gz"
}

func H_C09_ids() {
	vStoreTemplates = 3
	dir := vTempDir()
	// a real first segment
	s0, err := OpenPersistentHybridIndex(vFreshStoreCfg(dir, false))
	vAssert(err == nil, "open-ok")
	vAssert(s0.AddWithID(11, []float32{1}, "", nil) == nil, "add-ok")
	vAssert(s0.Close() == nil, "close-ok")
	maxID := []int{1, 7, 8, 9, 10, 63, 64, 99, 100, 777, 99999, 999998, 999999, 1000000, 1000009}[vChoose("highest_existing", 15)]
	if maxID > 1 {
		kind := []string{"hybrid", "vector", "text", "metadata"}[vChoose("component", 4)]
		var content []byte
		if vChoose("empty_file", 2) == 0 {
			content = []byte{0x1f, 0x8b, 1, 2, 3}
		}
		vFSWrite(dir+"/"+vSegName(kind, maxID), content)
	}
	s, err := OpenPersistentHybridIndex(vFreshStoreCfg(dir, false))
	vAssert(err == nil, "open-ok")
	if err != nil {
		return
	}
	before := vFSOverwrites()
	vAssert(s.AddWithID(12, []float32{5}, "", nil) == nil, "add-ok")
	vAssert(s.Flush() == nil, "flush-ok")
	vAssert(vFSExists(dir+"/"+vSegName("hybrid", maxID+1)), "next-segment-id-is-above-every-id-present")
	vAssert(vFSOverwrites() == before, "segment-files-never-overwritten")
	r, e := s.NewSearch().WithVector([]float32{5}).WithK(10).Execute()
	vAssert(e == nil, "search-ok")
	found := false
	for _, x := range r {
		if x.ID == 12 {
			found = true
		}
	}
	vAssert(found, "flushed-document-visible")
	vAssert(s.Close() == nil, "close-ok")
	vCover("ran")
}

func init() { vHarnesses["H_C09_refused"] = H_C09_refused }

// operations that are refused must not cost an acknowledged document its durability: one document added,
// then 0..2 refused Removes (unknown id) or a refused Add (wrong dimension; with one-document memtables it
// rotates first), then Close / Flush+Close / Flush followed by the death of the process (image at the
// instant Flush returned, no Close): the document is found after reopening with fresh templates
func H_C09_refused() {
	vStoreTemplates = 3
	dir := vTempDir()
	tiny := vChoose("tiny_memtables", 2) == 1
	s, err := OpenPersistentHybridIndex(vFreshStoreCfg(dir, tiny))
	vAssert(err == nil, "open-ok")
	a := vStoreDocs[0]
	vAssert(s.AddWithID(a.id, []float32{a.vec}, a.text, nil) == nil, "add-ok")
	switch vChoose("refused", 4) {
	case 1:
		vAssert(s.Remove(999) != nil, "remove-of-unknown-id-refused")
		vTag("refused-remove")
	case 2:
		vAssert(s.Remove(999) != nil && s.Remove(998) != nil, "remove-of-unknown-id-refused")
		vTag("two-refused-removes")
	case 3:
		vAssert(s.AddWithID(77, []float32{1, 2}, "", nil) != nil, "add-with-wrong-dimension-refused")
		vTag("refused-add")
	}
	switch vChoose("end", 3) {
	case 0:
		vAssert(s.Close() == nil, "close-ok")
	case 1:
		vAssert(s.Flush() == nil, "flush-ok")
		vAssert(s.Close() == nil, "close-ok")
	case 2:
		vAssert(s.Flush() == nil, "flush-ok")
		snap := vFSSnapshot() // the process dies here: Flush was the durability point
		vAssert(s.Close() == nil, "close-ok")
		vFSRestore(snap)
		vFSRemove(dir + "/LOCK")
		vTag("died-after-flush")
	}
	s2, err2 := OpenPersistentHybridIndex(vFreshStoreCfg(dir, false))
	vAssert(err2 == nil, "reopen-ok")
	if err2 != nil {
		return
	}
	vStoreFinds(s2, a, "after-restart")
	vAssert(s2.Close() == nil, "close-ok")
	vCover("ran")
}

func init() { vHarnesses["H_C09_short_reads"] = H_C09_short_reads }

// segments are decoded through decompressing readers, which may hand out fewer bytes per Read call than asked for
// (the real gzip reader: at most one 32 KiB window): three documents with every modality, Flush, Close, reopen with
// fresh templates while every gzip Read delivers at most 1 / 3 / 7 bytes — everything is still found
func H_C09_short_reads() {
	vStoreTemplates = []int{0, 1, 2, 3}[vChoose("templates", 4)]
	dir := vTempDir()
	s, err := OpenPersistentHybridIndex(vFreshStoreCfg(dir, false))
	vAssert(err == nil, "open-ok")
	for _, d := range vStoreDocs[:3] {
		vAssert(s.AddWithID(d.id, []float32{d.vec}, d.text, map[string]interface{}{"c": d.c}) == nil, "add-ok")
	}
	if vChoose("flush_first", 2) == 1 {
		vAssert(s.Flush() == nil, "flush-ok")
	}
	vAssert(s.Close() == nil, "close-ok")
	vGzipReadChunk([]int{1, 3, 7}[vChoose("bytes_per_read", 3)])
	s2, err2 := OpenPersistentHybridIndex(vFreshStoreCfg(dir, false))
	vAssert(err2 == nil, "reopen-ok")
	if err2 != nil {
		return
	}
	for _, d := range vStoreDocs[:3] {
		vStoreFinds(s2, d, "after-restart-with-short-reads")
	}
	vGzipReadChunk(0)
	vAssert(s2.Close() == nil, "close-ok")
	vCover("ran")
}
