//go:build verif

package comet

// C02 — every vector index returns only live, eligible, correctly scored,
// ordered hits; node queries; multi-query aggregation; flush invariance.

func init() {
	vHarnesses["H_C02_sound"] = H_C02_sound
	vHarnesses["H_C02_node"] = H_C02_node
	vHarnesses["H_C02_multi"] = H_C02_multi
	vHarnesses["H_C02_flush"] = H_C02_flush
	vHarnesses["H_C02_sound_t"] = H_C02_sound_t
	vHarnesses["H_C02_sound_d2"] = H_C02_sound_d2
	vHarnesses["H_C02_sound_flat"] = H_C02_sound_flat
	vHarnesses["H_C02_sound_hnsw"] = H_C02_sound_hnsw
	vHarnesses["H_C02_sound_ivf"] = H_C02_sound_ivf
	vHarnesses["H_C02_sound_pq"] = H_C02_sound_pq
	vHarnesses["H_C02_sound_ivfpq"] = H_C02_sound_ivfpq
}

const (
	vKFlat = iota
	vKHNSW
	vKIVF
	vKPQ
	vKIVFPQ
)

var vKindNames = []string{"flat", "hnsw", "ivf", "pq", "ivfpq"}

type vUT struct {
	kind  int
	idx   VectorIndex
	m     *vRef
	nlist int
	pq    *PQIndex
	ivfpq *IVFPQIndex
}

// vMakeIndex builds an index of the given kind.  Trained kinds are put in a
// trained state directly (in-package) with symbolic centroids / codebooks — a
// superset of what Train can produce.  dim 1: PQ M=1; dim 2: PQ M=2 (dsub=1);
// nbits=1 (Ksub=2).  HNSW: M=2, ef=8, level draws fixed to level 0.
func vCentroids(nlist, dim int, symbolic bool) [][]float32 {
	cs := make([][]float32, nlist)
	for c := range cs {
		if symbolic {
			cs[c] = vVec(vName("cent", c), dim)
		} else {
			cs[c] = vCopy([][]float32{{0, 1}, {4, 3}, {-3, -2}}[c][:dim])
		}
	}
	return cs
}

func vMakeIndex(kind int, metric DistanceKind, dim, nlist int) *vUT {
	return vMakeIndexC(kind, metric, dim, nlist, false)
}

// vPQConcreteCB: PQ codebook concrete (streams harnesses)
var vPQConcreteCB bool

// PQ shape used by vMakeIndexC (0 = default: M = dim, nbits = 1)
var vPQM, vPQNbits int

func vMakeIndexC(kind int, metric DistanceKind, dim, nlist int, symCentroids bool) *vUT {
	pqM, pqNbits := dim, 1
	if vPQM > 0 {
		pqM = vPQM
	}
	if vPQNbits > 0 {
		pqNbits = vPQNbits
	}
	u := &vUT{kind: kind, m: vNewRef(metric), nlist: nlist}
	vTag("kind=" + vKindNames[kind])
	switch kind {
	case vKFlat:
		idx, err := NewFlatIndex(dim, metric)
		vAssert(err == nil, "constructor")
		u.idx = idx
	case vKHNSW:
		idx, err := NewHNSWIndex(dim, metric, 2, 8, 8)
		vAssert(err == nil, "constructor")
		u.idx = idx
	case vKIVF:
		idx, err := NewIVFIndex(dim, nlist, metric)
		vAssert(err == nil, "constructor")
		idx.centroids = vCentroids(nlist, dim, symCentroids)
		idx.trained = true
		u.idx = idx
	case vKPQ:
		idx, err := NewPQIndex(dim, metric, pqM, pqNbits)
		vAssert(err == nil, "constructor")
		idx.codebooks = make([][]float32, idx.M)
		for mm := range idx.codebooks {
			if vPQConcreteCB {
				idx.codebooks[mm] = vCopy([]float32{-1, 2, 0.5, -3}[:idx.Ksub*idx.dsub])
			} else {
				idx.codebooks[mm] = vVec(vName("cb", mm), idx.Ksub*idx.dsub)
			}
		}
		idx.trained = true
		u.idx = idx
		u.pq = idx
		u.m.scoreFn = func(pq []float32, e *vRefEntry) float32 {
			for i, vn := range idx.vectorNodes {
				if vn.ID() == e.id {
					recon := make([]float32, idx.dim)
					for mm := 0; mm < idx.M; mm++ {
						for j := 0; j < idx.dsub; j++ {
							recon[mm*idx.dsub+j] = idx.codebooks[mm][int(idx.codes[i][mm])*idx.dsub+j]
						}
					}
					return euclideanDistanceImpl.Calculate(pq, recon)
				}
			}
			vAssert(false, "model-entry-missing-from-index")
			return 0
		}
	case vKIVFPQ:
		idx, err := NewIVFPQIndex(dim, metric, nlist, pqM, pqNbits)
		vAssert(err == nil, "constructor")
		idx.centroids = vCentroids(nlist, dim, symCentroids)
		idx.codebooks = make([][]float32, idx.M)
		for mm := range idx.codebooks {
			if symCentroids {
				idx.codebooks[mm] = vVec(vName("cb", mm), idx.Ksub*idx.dsub)
			} else {
				idx.codebooks[mm] = vCopy([]float32{-1, 2, 0.5, -3}[:idx.Ksub*idx.dsub])
			}
		}
		idx.trained = true
		u.idx = idx
		u.ivfpq = idx
		u.m.scoreFn = func(pq []float32, e *vRefEntry) float32 {
			for li, list := range idx.lists {
				for _, cv := range list {
					if cv.Node.ID() == e.id {
						recon := make([]float32, idx.dim)
						qres := make([]float32, idx.dim)
						for mm := 0; mm < idx.M; mm++ {
							for j := 0; j < idx.dsub; j++ {
								recon[mm*idx.dsub+j] = idx.codebooks[mm][int(cv.Code[mm])*idx.dsub+j]
							}
						}
						for d := range qres {
							qres[d] = pq[d] - idx.centroids[li][d]
						}
						return euclideanDistanceImpl.Calculate(qres, recon)
					}
				}
			}
			vAssert(false, "model-entry-missing-from-index")
			return 0
		}
	}
	return u
}

// probedAll reports whether nprobes means "every cluster".
func (u *vUT) exhaustive(nprobes int) bool {
	switch u.kind {
	case vKFlat, vKPQ:
		return true
	case vKIVF, vKIVFPQ:
		return nprobes <= 0 || nprobes >= u.nlist
	}
	return false
}

var vIDs = []uint32{5, 3, 9, 2, 7, 4}

var vConcreteVecs = [][]float32{{1, 0}, {3, 4}, {-1, 2}, {-2, -5}}

// populate adds n vectors.  For flat / hnsw every component is symbolic; for
// the trained kinds the stored vectors are concrete (cluster assignment and
// encoding of symbolic vectors are C13 / C14's subject, and they multiply the
// paths by ~16 per vector) while centroids, codebooks and the query stay symbolic.
func (u *vUT) populate(n, dim int) int {
	added := 0
	for i := 0; i < n; i++ {
		var v []float32
		if u.kind >= vKIVF {
			v = vCopy(vConcreteVecs[i][:dim])
		} else {
			v = vVec(vName("v", i), dim)
		}
		if vAddBoth(u.idx, u.m, vIDs[i], v) {
			added++
		}
	}
	return added
}

// oneOp: nothing | Remove(one of the ids, or an unknown id) | Remove + Flush
func (u *vUT) oneOp(n int, withUnknown bool) {
	op := vChoose("op", 3)
	if op == 0 {
		return
	}
	nt := n
	if withUnknown {
		nt = n + 1
	}
	t := vChoose("target", nt)
	id := uint32(77)
	if t < n {
		id = vIDs[t]
	}
	vRemoveBoth(u.idx, u.m, id)
	if op == 2 {
		vFlushBoth(u.idx, u.m)
	}
}

func H_C02_sound()        { hC02Sound(vChoose("kind", 5), 2, 1) }
func H_C02_sound_flat()   { hC02Sound(vKFlat, 2, 1) }
func H_C02_sound_hnsw()   { hC02Sound(vKHNSW, 2, 1) }
func H_C02_sound_ivf()    { hC02Sound(vKIVF, 2, 1) }
func H_C02_sound_pq()     { hC02Sound(vKPQ, 2, 1) }
func H_C02_sound_ivfpq()  { hC02Sound(vKIVFPQ, 2, 1) }
func H_C02_sound_t()      { hC02Sound(vChoose("kind", 5), 3, 1) }
func H_C02_sound_d2()     { hC02Sound(vChoose("kind", 5), 2, 2) }

// single query: soundness for every kind; exact top-k for the exhaustive ones
func hC02Sound(kind, maxN, maxDim int) {
	var metric DistanceKind
	if kind >= vKIVF {
		metric = []DistanceKind{L2Squared, Cosine}[vChoose("metric", 2)]
	} else {
		metric = vMetrics[vChoose("metric", 3)]
	}
	dim := maxDim
	nlist := 1
	if kind == vKIVF || kind == vKIVFPQ {
		nlist = 2
	}
	u := vMakeIndex(kind, metric, dim, nlist)
	n := maxN
	u.populate(n, dim)
	u.oneOp(n, kind < vKIVF)
	q := vVec("q", dim)
	k := vInt("k")
	th := vF32("th")
	vAssume(th >= 0)
	var filt []uint32
	switch vChoose("filt", 3) {
	case 1:
		filt = []uint32{vIDs[n-1], 77}
	case 2: // unsorted, span == length, not a contiguous run: (5, 7, 6) / (5, 9, 7)...
		filt = []uint32{vIDs[0], vIDs[1], vIDs[0] + 2} // (5, 3, 7): span 3 == length, yet not the run 5..7
	}
	s := u.idx.NewSearch().WithQuery(q).WithK(k).WithThreshold(th).WithDocumentIDs(filt...)
	nprobes := 0
	if kind == vKIVF || kind == vKIVFPQ {
		nprobes = []int{0, 1, 5, -3}[vChoose("nprobes", 4)]
		s = s.WithNProbes(nprobes)
	}
	res, serr := s.Execute()
	pq, perr := u.m.dist.Preprocess(vCopy(q))
	if kind == vKPQ && len(u.m.entries) == 0 && false {
		return
	}
	// (PQ and HNSW answer an empty index before looking at the query)
	vAssert((serr == nil) == (perr == nil) || ((kind == vKPQ || kind == vKHNSW) && serr == nil && len(u.m.entries) == 0), "search-error-iff-query-rejected")
	if serr != nil {
		return
	}
	if perr != nil {
		// PQ returns an empty list for an empty index before looking at the query
		vAssert(len(res) == 0, "rejected-query-returns-nothing")
		return
	}
	E := u.m.eligible(pq, th, filt)
	if u.exhaustive(nprobes) {
		vCheckExact(res, E, k)
		vCover("exhaustive")
	} else {
		vCheckSound(res, E, k)
		vCover("approximate")
	}
	if len(res) > 0 {
		vCover("nonempty-result")
	}
}

// node-id query == query with that node's stored vector; unknown / removed id is an error
func H_C02_node() {
	kind := vChoose("kind", 5)
	metric := []DistanceKind{L2Squared, Cosine}[vChoose("metric", 2)]
	dim := 1
	nl := 1
	if kind == vKIVF || kind == vKIVFPQ {
		nl = 2 // the two stored vectors fall into different inverted lists
	}
	u := vMakeIndex(kind, metric, dim, nl)
	n := 2
	u.populate(n, dim)
	u.oneOp(n, false)
	t := vChoose("node", n+1)
	id := uint32(77)
	if t < n {
		id = vIDs[t]
	}
	k := 2
	if vChoose("two_nodes", 2) == 1 {
		// two node ids: an error iff one of them is unknown or removed; otherwise the two stored vectors as queries
		first := vIDs[vChoose("first_node", n)]
		r2n, e2n := u.idx.NewSearch().WithNode(first, id).WithK(10).Execute()
		e1, e2 := u.m.find(first), u.m.find(id)
		if e1 == nil || !e1.live || e2 == nil || !e2.live {
			vAssert(e2n != nil, "unknown-or-removed-node-is-error")
			vCover("node-error")
			return
		}
		rq, eq := u.idx.NewSearch().WithQuery(vCopy(e1.vec), vCopy(e2.vec)).WithK(10).Execute()
		vAssert((e2n == nil) == (eq == nil), "node-equals-vector-query-error")
		if e2n == nil && eq == nil {
			vSameResults(r2n, rq, "two-nodes-equal-two-vector-queries")
		}
		vCover("node-ok")
		return
	}
	ns := u.idx.NewSearch().WithNode(id).WithK(k)
	res, err := ns.Execute()
	e := u.m.find(id)
	if e == nil || !e.live {
		vAssert(err != nil, "unknown-or-removed-node-is-error")
		vCover("node-error")
		return
	}
	// the same search object executed again answers the same (nothing is carried over from the first call)
	resAgain, errAgain := ns.Execute()
	vAssert((err == nil) == (errAgain == nil), "second-execute-same-error")
	if err == nil && errAgain == nil {
		vSameResults(res, resAgain, "second-execute-same-result")
	}
	res2, err2 := u.idx.NewSearch().WithQuery(vCopy(e.vec)).WithK(k).Execute()
	vAssert((err == nil) == (err2 == nil), "node-equals-vector-query-error")
	if metric != Cosine {
		// under cosine "the stored unit vector is not rejected as a zero vector" is a float fact outside T1
		vAssert(err == nil, "live-node-query-ok")
	}
	if err != nil {
		return
	}
	vSameResults(res, res2, "node-equals-vector-query")
	vCover("node-ok")
}

// two queries (or a query and a node id), aggregation sum / max / mean, k >= n:
// every live vector is in every per-query list, so its score is the rule applied
// to its raw per-query distances in query order.
func H_C02_multi() {
	kind := vChoose("kind", 5)
	metric := L2Squared // (preprocessing under the other metrics: H_C02_sound / H_C02_node)
	agg := vAggKinds[vChoose("agg", 3)]
	dim := 1
	u := vMakeIndex(kind, metric, dim, 1)
	n := 2
	u.populate(n, dim)
	useNode := vChoose("second_is_node", 2) == 1
	q1 := vVec("q1", dim)
	var q2 []float32
	s := u.idx.NewSearch().WithQuery(q1)
	if useNode {
		q2 = vCopy(u.m.entries[0].vec)
		s = s.WithNode(u.m.entries[0].id)
	} else {
		q2 = vVec("q2", dim)
		s = u.idx.NewSearch().WithQuery(q1, q2)
	}
	res, err := s.WithK(10).WithScoreAggregation(agg).Execute()
	vAssert(err == nil, "multi-query-ok")
	vAssert(len(res) == n, "multi-each-id-once-count")
	for i := range u.m.entries {
		e := &u.m.entries[i]
		d1 := u.m.scoreFn(q1, e)
		d2 := u.m.scoreFn(q2, e)
		vAssume(vAnd(d1 == d1, d2 == d2))
		cnt := 0
		for _, r := range res {
			if r.GetId() == e.id {
				cnt++
				switch agg {
				case SumAggregation:
					vAssert(vSameF32(r.Score, float32(0)+d1+d2), "multi-sum")
				case MeanAggregation:
					vAssert(vSameF32(r.Score, (float32(0)+d1+d2)/float32(2)), "multi-mean")
				case MaxAggregation:
					vAssertIsMax(r.Score, []float32{d1, d2}, "multi-max")
				}
			}
		}
		vAssert(cnt == 1, "multi-each-id-once")
	}
	for i := 1; i < len(res); i++ {
		vAssert(vOr(!(res[i].Score < res[i-1].Score), vOr(res[i].Score != res[i].Score, res[i-1].Score != res[i-1].Score)), "multi-ascending")
	}
	vCover("multi")
}

// exhaustive kinds: flushing soft-deleted vectors never changes a result list
func H_C02_flush() {
	kind := []int{vKFlat, vKIVF, vKPQ, vKIVFPQ}[vChoose("kind", 4)]
	metric := vMetrics[vChoose("metric", 3)]
	dim := 1
	nlist := 1
	if kind == vKIVF || kind == vKIVFPQ {
		nlist = 2
	}
	u := vMakeIndex(kind, metric, dim, nlist)
	n := 2 + vChoose("n", 2)
	u.populate(n, dim)
	vRemoveBoth(u.idx, u.m, vIDs[vChoose("target", n)])
	if n == 3 && kind != vKIVFPQ && vChoose("second_remove", 2) == 1 {
		vRemoveBoth(u.idx, u.m, vIDs[(vChoose("target2", 2)+1)%n])
	}
	q := vVec("q", dim)
	k := vInt("k")
	before, e1 := u.idx.NewSearch().WithQuery(q).WithK(k).WithNProbes(0).Execute()
	vAssert(u.idx.Flush() == nil, "flush-error")
	after, e2 := u.idx.NewSearch().WithQuery(q).WithK(k).WithNProbes(0).Execute()
	vAssert((e1 == nil) == (e2 == nil), "flush-invariant-error")
	if e1 != nil {
		return
	}
	vSameResults(before, after, "flush-invariant")
	vCover("flush")
}

func init() { vHarnesses["H_C02_many"] = H_C02_many }

// more live vectors than the builder's default k (10) for the exhaustive trained kinds
func H_C02_many() {
	kind := []int{vKIVF, vKPQ, vKIVFPQ}[vChoose("kind", 3)]
	metric := []DistanceKind{L2Squared, Cosine}[vChoose("metric", 2)]
	vPQM, vPQNbits, vPQConcreteCB = 2, 1, true
	u := vMakeIndexC(kind, metric, 2, 2, false)
	for i := 0; i < 12; i++ {
		vAddBoth(u.idx, u.m, uint32(40-3*i), []float32{float32(i%5) + 0.5, float32(i/3) - 1.25})
	}
	vRemoveBoth(u.idx, u.m, 40-3*4)
	if vChoose("flush", 2) == 1 {
		vFlushBoth(u.idx, u.m)
	}
	q := []float32{1.75, 0.5}
	k := vInt("k")
	s := u.idx.NewSearch().WithQuery(q).WithNProbes(0)
	if vChoose("call_with_k", 2) == 1 {
		s = s.WithK(k)
	} else {
		k = 10
	}
	res, serr := s.Execute()
	vAssert(serr == nil, "search-ok")
	pq, _ := u.m.dist.Preprocess(vCopy(q))
	vCheckExact(res, u.m.eligible(pq, 0, nil), k)
	if len(res) > 10 {
		vCover("more-than-default-k")
	}
}

func init() { vHarnesses["H_C02_flush_many"] = H_C02_flush_many }

// six concrete vectors over three clusters, ANY subset of them removed, Flush, one more Add near any
// centroid: the result lists before the flush, after it and after the later Add are exact against the
// reference (sound for hnsw), and a removed node id is an error — compaction code that moves / shares
// storage slots is exercised with every removal pattern, incl. runs of removed slots at the end
func H_C02_flush_many() {
	kind := vChoose("kind", 5)
	vPQM, vPQNbits, vPQConcreteCB = 2, 1, true
	u := vMakeIndexC(kind, L2Squared, 2, 3, false)
	pts := [][]float32{{0.5, 1}, {4, 2.5}, {-3, -1}, {-0.5, 1.5}, {4.5, 3.5}, {-2.5, -2.5}}
	for i, p := range pts {
		vAddBoth(u.idx, u.m, vIDs[i], vCopy(p))
	}
	mask := vChoose("removed_mask", 64)
	for i := range pts {
		if mask&(1<<uint(i)) != 0 {
			vRemoveBoth(u.idx, u.m, vIDs[i])
		}
	}
	q := []float32{1, 1}
	check := func(label string) {
		res, err := u.idx.NewSearch().WithQuery(vCopy(q)).WithK(0).WithNProbes(0).Execute()
		if kind == vKHNSW && u.m.liveCount() == 0 {
			return
		}
		vAssert(err == nil, label+"-search-ok")
		vTag("at=" + label)
		E := u.m.eligible(q, 0, nil)
		if kind == vKHNSW {
			vCheckSound(res, E, 0)
		} else {
			vCheckExact(res, E, 0)
		}
	}
	check("before-flush")
	flushFirst := vChoose("flush_before_the_later_add", 2) == 1
	if flushFirst {
		vFlushBoth(u.idx, u.m)
		check("after-flush")
	}
	for i := range pts {
		if mask&(1<<uint(i)) != 0 {
			_, nerr := u.idx.NewSearch().WithNode(vIDs[i]).WithK(0).WithNProbes(0).Execute()
			vAssert(nerr != nil, "removed-node-id-is-an-error")
		}
	}
	np := [][]float32{{0.25, 0.5}, {3.5, 3}, {-3.5, -2}}[vChoose("new_at", 3)]
	newID := uint32(42)
	if vChoose("later_add_is_an_update", 2) == 1 {
		// the later Add re-uses the first removed id (update = remove + add), other removals possibly still pending
		first := -1
		for i := range pts {
			if mask&(1<<uint(i)) != 0 {
				first = i
				break
			}
		}
		if first < 0 {
			vAssume(false)
		}
		newID = vIDs[first]
		vTag("update")
	}
	vAddBoth(u.idx, u.m, newID, vCopy(np))
	check("after-later-add")
	check("after-later-add-again")
	vCover("ran")
}

func init() {
	vHarnesses["H_C02_filter_reuse"] = H_C02_filter_reuse
	vHarnesses["H_C02_multi_k"] = H_C02_multi_k
}

// id restrictions of very different sizes one after the other (the restriction object is pooled and reused):
// twelve vectors, a first search restricted to 9..11 ids (some unknown), then one restricted to 1..3 ids, then a
// large one again — every answer is exact for ITS OWN restriction (sound for hnsw)
func H_C02_filter_reuse() { hFilterReuse(vChoose("kind", 5)) }

func hFilterReuse(kind int) {
	vPQM, vPQNbits, vPQConcreteCB = 2, 1, true
	u := vMakeIndexC(kind, L2Squared, 2, 2, false)
	var ids []uint32
	for i := 0; i < 12; i++ {
		id := uint32(40 - 3*i)
		ids = append(ids, id)
		vAddBoth(u.idx, u.m, id, []float32{float32(i%5) + 0.5, float32(i/3) - 1.25})
	}
	// two more vectors with ids next to 40, so that restriction lists can repeat an id and straddle a live one
	vAddBoth(u.idx, u.m, 41, []float32{1.5, 0.25})
	vAddBoth(u.idx, u.m, 42, []float32{-1.5, 1.25})
	q := vCopy([][]float32{{1.75, 0.5}, {-0.25, 2}}[vChoose("query", 2)])
	k := vInt("k")
	run := func(filt []uint32, label string) {
		res, err := u.idx.NewSearch().WithQuery(vCopy(q)).WithK(k).WithNProbes(0).WithEfSearch(32).WithDocumentIDs(filt...).Execute()
		vAssert(err == nil, label+"-search-ok")
		vTag("at=" + label)
		E := u.m.eligible(q, 0, filt)
		if kind == vKHNSW {
			vCheckSound(res, E, k)
		} else {
			vCheckExact(res, E, k)
		}
	}
	big := append([]uint32{}, ids[vChoose("big_from", 2):9+2*vChoose("big_more", 2)]...)
	big = append(big, 1000, 1001)
	run(big, "large-restriction")
	small := [][]uint32{{ids[3]}, {ids[11], ids[0]}, {ids[10], 1000, ids[5]}, {ids[1], ids[2], ids[9]},
		{40, 40, 42}, {40, 42, 42}, {7, 10, 10, 13, 13, 13, 42}}[vChoose("small", 7)] // repeated ids, ascending, spanning live ids that are not listed
	run(small, "small-restriction-after-large")
	if vChoose("third", 2) == 1 {
		run(ids[2:11], "large-restriction-after-small")
	} else {
		run(nil, "unrestricted-after-small")
	}
	vCover("ran")
}

// two queries whose per-query top-k lists differ in membership (k = 2 of 3 live vectors): an id found by one query
// only contributes one score, an id found by both contributes two; the aggregated list is ordered by the aggregated
// score and cut to k.  Distances of one query are assumed pairwise distinct (ties at a per-query k-th place are
// outside this clause).  Exact kinds only (the per-query lists of hnsw are not determined).
func H_C02_multi_k() {
	kind := []int{vKFlat, vKIVF, vKPQ}[vChoose("kind", 3)]
	agg := vAggKinds[vChoose("agg", 3)]
	u := vMakeIndex(kind, L2Squared, 1, 1)
	u.populate(3, 1)
	q1, q2 := vVec("q1", 1), vVec("q2", 1)
	const k = 2
	res, err := u.idx.NewSearch().WithQuery(q1, q2).WithK(k).WithNProbes(0).WithScoreAggregation(agg).Execute()
	vAssert(err == nil, "multi-query-ok")
	n := len(u.m.entries)
	d := [2][]float32{make([]float32, n), make([]float32, n)}
	for i := range u.m.entries {
		d[0][i] = u.m.scoreFn(q1, &u.m.entries[i])
		d[1][i] = u.m.scoreFn(q2, &u.m.entries[i])
		vAssume(vAnd(d[0][i] == d[0][i], d[1][i] == d[1][i]))
	}
	for qi := 0; qi < 2; qi++ {
		for i := 0; i < n; i++ {
			for j := 0; j < i; j++ {
				vAssume(d[qi][i] != d[qi][j])
			}
		}
	}
	// membership of entry i in the top-k of query qi: fewer than k entries are strictly nearer
	in := [2][]bool{make([]bool, n), make([]bool, n)}
	for qi := 0; qi < 2; qi++ {
		for i := 0; i < n; i++ {
			nearer := 0
			for j := 0; j < n; j++ {
				if j != i && d[qi][j] < d[qi][i] {
					nearer++
				}
			}
			in[qi][i] = nearer < k
		}
	}
	type exp struct {
		id uint32
		sc float32
	}
	var want []exp
	for i := 0; i < n; i++ {
		var scs []float32
		for qi := 0; qi < 2; qi++ {
			if in[qi][i] {
				scs = append(scs, d[qi][i])
			}
		}
		if len(scs) == 0 {
			continue
		}
		var sc float32
		switch agg {
		case SumAggregation, MeanAggregation:
			sc = float32(0)
			for _, s := range scs {
				sc += s
			}
			if agg == MeanAggregation {
				sc = sc / float32(len(scs))
			}
		case MaxAggregation:
			sc = scs[0]
			if len(scs) == 2 {
				sc = vIteF32(scs[1] > scs[0], scs[1], scs[0])
			}
		}
		vAssume(sc == sc)
		want = append(want, exp{u.m.entries[i].id, sc})
		if len(scs) == 1 {
			vCover("found-by-one-query-only")
		}
	}
	wantLen := len(want)
	if wantLen > k {
		wantLen = k
	}
	vAssert(len(res) == wantLen, "multi-k-count")
	for i, r := range res {
		found := false
		for _, w := range want {
			if w.id == r.GetId() {
				found = true
				vAssert(vSameF32(r.Score, w.sc), "multi-k-score-is-the-rule-over-the-lists-that-hold-the-id")
			}
		}
		vAssert(found, "multi-k-result-is-in-some-per-query-list")
		for j := 0; j < i; j++ {
			vAssert(res[j].GetId() != r.GetId(), "multi-k-each-id-once")
		}
		if i > 0 {
			vAssert(!(r.Score < res[i-1].Score), "multi-k-ascending")
		}
	}
	for _, w := range want {
		ret := false
		for _, r := range res {
			if r.GetId() == w.id {
				ret = true
			}
		}
		if !ret {
			for _, r := range res {
				vAssert(!(w.sc < r.Score), "multi-k-best-aggregated-scores-kept")
			}
		}
	}
	vCover("ran")
}

func init() { vHarnesses["H_C02_builder_reuse"] = H_C02_builder_reuse }

// one search object executed several times while the index changes underneath it, and a two-query batch whose first
// query finds fewer than k candidates: Execute must not carry anything (a clamped k, ranked clusters, tables) from one
// call or one query into the next.  5 kinds, concrete stored vectors, symbolic query coordinate.
func H_C02_builder_reuse() {
	kind := vChoose("kind", 5)
	vPQM, vPQNbits, vPQConcreteCB = 2, 1, true
	u := vMakeIndexC(kind, L2Squared, 2, 2, false)
	q := []float32{vF32("qx"), 0.5}
	vAssume(vAnd(q[0] >= -8, q[0] <= 8))
	k := 2 + vChoose("k", 2)
	vAddBoth(u.idx, u.m, 40, []float32{0.5, -1.25})
	s := u.idx.NewSearch().WithQuery(q).WithK(k).WithNProbes(0).WithEfSearch(16)
	check := func(label string) {
		res, err := s.Execute()
		vAssert(err == nil, label+"-search-ok")
		vTag("at=" + label)
		E := u.m.eligible(q, 0, nil)
		if kind == vKHNSW {
			vCheckSound(res, E, k)
			if len(E) > 0 {
				vAssert(len(res) > 0, label+"-nonempty")
			}
		} else {
			vCheckExact(res, E, k)
		}
	}
	check("one-vector-fewer-than-k")
	vAddBoth(u.idx, u.m, 37, []float32{1.5, 2})
	vAddBoth(u.idx, u.m, 34, []float32{-2.5, 0.75})
	vAddBoth(u.idx, u.m, 31, []float32{3.5, -0.25})
	check("after-three-more-adds")
	vRemoveBoth(u.idx, u.m, 37)
	check("after-a-removal")
	if vChoose("flush", 2) == 1 {
		vFlushBoth(u.idx, u.m)
		check("after-flush")
	}
	if kind != vKHNSW {
		// a batch whose first query has no candidate inside the threshold and whose second has three
		far := []float32{60, 60}
		near := []float32{0.5, 0.5}
		const th = 40
		rb, eb := u.idx.NewSearch().WithQuery(far, near).WithK(2).WithThreshold(th).WithNProbes(0).Execute()
		vAssert(eb == nil, "batch-search-ok")
		E := u.m.eligible(near, th, nil)
		vAssert(len(u.m.eligible(far, th, nil)) == 0 && len(E) >= 2, "harness-shape")
		vCheckExact(rb, E, 2)
	}
	vCover("ran")
}
