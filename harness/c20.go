//go:build verif

package comet

import "math"

// C20 — training and quantisation are deterministic, in-range and error-bounded.

func init() {
	vHarnesses["H_C20_f32"] = H_C20_f32
	vHarnesses["H_C20_f16"] = H_C20_f16
	vHarnesses["H_C20_int8"] = H_C20_int8
	vHarnesses["H_C20_int8_train"] = H_C20_int8_train
	vHarnesses["H_C20_kmeans"] = H_C20_kmeans
	vHarnesses["H_C20_kmeans_t"] = H_C20_kmeans_t
	vHarnesses["H_C20_kmeans3"] = H_C20_kmeans3
	vHarnesses["H_C20_kmeans4"] = H_C20_kmeans4
	vHarnesses["H_C20_kmeans4m"] = H_C20_kmeans4m
	vHarnesses["H_C20_train_twice"] = H_C20_train_twice
}

// float32 quantiser: exact round trip, fresh slices, input untouched
func H_C20_f32() {
	n := vChoose("n", 4)
	v := vVec("v", n)
	v0 := vCopy(v)
	q, err := NewQuantizer(FullPrecision)
	vAssert(err == nil && q.IsTrained() && q.Type() == FullPrecision, "constructor")
	st, e1 := q.Quantize(v)
	vAssert(e1 == nil, "quantize-ok")
	stv := st.([]float32)
	vAssert(len(stv) == n, "length-preserved")
	out, e2 := q.Dequantize(st)
	vAssert(e2 == nil && len(out) == n, "dequantize-ok")
	vAssert(vSameVec(out, v0), "float32-roundtrip-exact")
	if n > 0 {
		vAssert(&stv[0] != &v[0] && &out[0] != &stv[0], "fresh-slices")
		stv[0] = 42
		out[0] = 43
	}
	vAssert(vSameVec(v, v0), "input-untouched")
	_, e3 := q.Dequantize([]int8{1})
	vAssert(e3 != nil, "wrong-stored-type-is-error")
	_, e4 := NewQuantizer(QuantizerType("nope"))
	vAssert(e4 != nil, "unknown-type-is-error")
	vCover("ran")
}

// float16: Quantize produces exactly the binary16 nearest-even rounding of v
// (SMT-LIB to_fp 5 11 RNE) and Dequantize exactly its float32 value, for every
// non-NaN float32; in the normal range the relative error is <= 2^-11.
func H_C20_f16() {
	v := vF32("v")
	vAssume(v == v)
	q, _ := NewQuantizer(HalfPrecision)
	in := []float32{v}
	st, e1 := q.Quantize(in)
	vAssert(e1 == nil, "quantize-ok")
	bits := st.([]uint16)
	vAssert(len(bits) == 1, "length-preserved")
	vAssert(vF16Spec(bits[0], v), "float16-bits-are-RNE-rounding")
	out, e2 := q.Dequantize(st)
	vAssert(e2 == nil && len(out) == 1, "dequantize-ok")
	vAssert(vF16ToF32Spec(bits[0], out[0]), "float16-dequantize-exact")
	vAssert(vSameF32(in[0], v), "input-untouched")
	a := vAbs32(v)
	if a >= 6.103515625e-05 && a <= 65504 { // binary16 normal range
		vAssert(vAbs32(out[0]-v) <= a*float32(0.00048828125), "float16-half-ulp-relative-error")
		vCover("normal-range")
	}
	vCover("ran")
}

var vAbsMaxes = []float32{1e-37, 0.0009765625, 0.1, 1, 3, 127, 1000, 1048576}

// int8: refuses to work untrained; inside the trained range the reconstruction
// error is <= absMax/254 up to float32 rounding: the bound is attained exactly
// in the reals (v = -absMax/2) and the five roundings of the computation add up
// to ~1e-7*absMax, so a relative slack of 2^-12 on the bound is allowed (2^-18
// was refuted by cvc5 with concrete inputs)
func H_C20_int8() {
	q := &Int8Quantizer{}
	_, e0 := q.Quantize([]float32{1})
	vAssert(e0 != nil, "int8-untrained-quantize-is-error")
	_, e00 := q.Dequantize([]int8{1})
	vAssert(e00 != nil, "int8-untrained-dequantize-is-error")
	absMax := vAbsMaxes[vChoose("absmax", len(vAbsMaxes))]
	switch vChoose("trained_by", 3) {
	case 0:
		q.Train([][]float32{{absMax / 2, -absMax}, {0}})
	case 1:
		q.SetAbsMax(absMax) // restored from a stored absMax
	case 2:
		q.Train([][]float32{{absMax * 8}})
		q.SetAbsMax(absMax)
	}
	vAssert(q.IsTrained() && q.GetAbsMax() == absMax, "train-sets-absmax")
	v := vF32("v")
	vAssume(vAnd(v >= -absMax, v <= absMax))
	in := []float32{v, 0}
	st, e1 := q.Quantize(in)
	vAssert(e1 == nil, "quantize-ok")
	codes := st.([]int8)
	vAssert(len(codes) == 2, "length-preserved")
	out, e2 := q.Dequantize(st)
	vAssert(e2 == nil && len(out) == 2, "dequantize-ok")
	bound := absMax / 254 * (1 + 1.0/4096)
	vAssert(vAbs32(out[0]-v) <= bound, "int8-error-bound")
	vAssert(out[1] == 0, "zero-maps-to-zero")
	vAssert(vSameF32(in[0], v), "input-untouched")
	vCover("ran")
}

// Train computes the maximum absolute value
func H_C20_int8_train() {
	q := &Int8Quantizer{}
	a, b, c := vF32("a"), vF32("b"), vF32("c")
	vAssume(vAnd(a == a, vAnd(b == b, c == c)))
	q.Train([][]float32{{a, b}, {c}})
	m := q.GetAbsMax()
	vAssert(vAnd(!(vAbs32(a) > m), vAnd(!(vAbs32(b) > m), !(vAbs32(c) > m))), "absmax-upper-bound")
	vAssert(vOr(m == vAbs32(a), vOr(m == vAbs32(b), vOr(m == vAbs32(c), m == 0))), "absmax-attained")
	vAssert(q.IsTrained() == (m > 0), "trained-iff-positive")
	vCover("ran")
}

func H_C20_kmeans()   { hC20KMeans(0, 2, 1, 2, 0) }
func H_C20_kmeans3()  { hC20KMeans(3, 3, 1, 2, 2) }
func H_C20_kmeans4()  { hC20KMeans(4, 4, 1, 3, 2) }
func H_C20_kmeans4m() { vKMMixed = true; hC20KMeans(4, 4, 1, 3, 2) }

// mixed mode: two of the four vectors are concrete (equal or far apart, so that
// duplicate sample positions and empty clusters arise), the other two symbolic
var vKMMixed bool
func H_C20_kmeans_t() { hC20KMeans(0, 3, 2, 3, 0) }

// k-means: shape, range, assignment, immutability, determinism
func hC20KMeans(minN, maxN, maxDim, maxIterBound, fixedK int) {
	metric := L2Squared
	if fixedK == 0 {
		metric = vMetrics[vChoose("metric", 3)]
	}
	dist, _ := NewDistance(metric)
	dim := 1 + vChoose("dim", maxDim)
	n := minN + vChoose("n", maxN-minN+1)
	vecs := make([][]float32, n)
	orig := make([][]float32, n)
	symIdx := -1
	var conc []float32
	if vKMMixed {
		symIdx = vChoose("symbolic_pair", 6)
		conc = [][]float32{{0, 0}, {0, 10}, {10, 0}}[vChoose("concrete_values", 3)]
	}
	pairs := [][2]int{{0, 1}, {0, 2}, {0, 3}, {1, 2}, {1, 3}, {2, 3}}
	ci := 0
	for i := range vecs {
		if symIdx >= 0 && i != pairs[symIdx][0] && i != pairs[symIdx][1] {
			vecs[i] = []float32{conc[ci]}
			ci++
		} else {
			vecs[i] = vVec(vName("v", i), dim)
		}
		orig[i] = vCopy(vecs[i])
	}
	var k, maxIter int
	if fixedK > 0 {
		k = fixedK
		maxIter = maxIterBound
	} else {
		k = vInt("k")
		maxIter = vInt("maxIter")
		vAssume(maxIter <= maxIterBound)
	}
	DefaultMaxIter = maxIterBound // effective iteration count bounded (more iterations are outside the claim)
	cents, assign := KMeans(vecs, k, dist, maxIter)
	if n == 0 || k <= 0 {
		vAssert(cents == nil && assign == nil, "kmeans-nil-for-empty-or-nonpositive-k")
		vCover("nil")
		return
	}
	want := n
	if k < n {
		want = k
	}
	vAssert(len(cents) == want, "kmeans-returns-min-k-n-centroids")
	vAssert(len(assign) == n, "kmeans-one-assignment-per-vector")
	for i := range vecs {
		vAssert(vSameVec(vecs[i], orig[i]), "kmeans-input-untouched")
	}
	for _, c := range cents {
		vAssert(len(c) == dim, "centroid-dimension")
	}
	for i, a := range assign {
		vAssert(a >= 0 && a < len(cents), "assignment-in-range")
		_ = i
	}
	// determinism: a second call on the same input gives bit-identical output (also under the other map iteration order)
	vMapOrder(true)
	cents2, assign2 := KMeans(vecs, k, dist, maxIter)
	vMapOrder(false)
	vAssert(len(cents2) == len(cents) && len(assign2) == len(assign), "kmeans-deterministic-shape")
	for i := range cents {
		if i < len(cents2) {
			vAssert(vSameVec(cents[i], cents2[i]), "kmeans-deterministic-centroids")
		}
	}
	for i := range assign {
		if i < len(assign2) {
			vAssert(assign[i] == assign2[i], "kmeans-deterministic-assignments")
		}
	}
	// converged (one more assignment pass changes nothing) => every vector sits with a nearest centroid
	stable := true
	for i, v := range vecs {
		if FindNearestCentroidIndex(v, cents, dist) != assign[i] {
			stable = false
		}
	}
	if stable {
		for i, v := range vecs {
			dA := dist.Calculate(v, cents[assign[i]])
			for c := range cents {
				if c != assign[i] {
					vAssert(!(dist.Calculate(v, cents[c]) < dA), "converged-assignment-is-nearest")
				}
			}
		}
		vCover("converged")
	}
	vCover("ran")
}

// training an index twice on the same data gives search-identical indexes
func H_C20_train_twice() {
	vReplayAttempts = 40 // natively the two trainings meet the same map order by chance about every other time
	kind := vChoose("kind", 5)
	if kind == 4 {
		// a large training set (300 and 500 vectors per centroid — the upper end of the property's range): two runs of
		// k-means on the same input are bit-identical; nothing drawn from a random source may reach the result
		n := []int{300, 500}[vChoose("n", 2)]
		vecs := make([][]float32, n)
		for i := range vecs {
			vecs[i] = []float32{float32((i*37)%101)/8 - 6, float32((i*53)%89)/4 - 11}
		}
		dist, _ := NewDistance(L2Squared)
		k := 1 + vChoose("k", 2)
		c1, a1 := KMeans(vecs, k, dist, 3)
		vMapOrder(true)
		c2, a2 := KMeans(vecs, k, dist, 3)
		vMapOrder(false)
		vAssert(len(c1) == k && len(c2) == k && len(a1) == n && len(a2) == n, "kmeans-shape")
		for i := range c1 {
			vAssert(vSameVec(c1[i], c2[i]), "kmeans-deterministic-centroids")
		}
		for i := range a1 {
			vAssert(a1[i] == a2[i], "kmeans-deterministic-assignments")
		}
		for i := range vecs {
			vAssert(vecs[i][0] == float32((i*37)%101)/8-6 && vecs[i][1] == float32((i*53)%89)/4-11, "kmeans-input-untouched")
		}
		vCover("ran")
		return
	}
	data := [][]float32{{1, 0}, {0.5, 2}, {4, 4}, {4.5, 3}, {-2, 1}, {-2.5, 0.5}, {1, 1}, {3, -1}, {0, 0.25}, {5, 5}, {2.5, 2.5}, {-1, -1}}
	if kind == 3 { // IVFPQ with two coarse clusters needs 20 training vectors
		data = append(data, [][]float32{{6, 5.5}, {5.5, 6}, {-3, -0.5}, {-3.5, 1.5}, {0.25, -2}, {7, 4}, {-1.5, 2}, {3.5, 3.25}}...)
	}
	mk := func() VectorIndex {
		nodes := make([]VectorNode, len(data))
		for i, d := range data {
			nodes[i] = *NewVectorNodeWithID(uint32(i+1), vCopy(d))
		}
		var idx VectorIndex
		switch kind {
		case 0:
			idx, _ = NewIVFIndex(2, 2, L2Squared)
		case 1:
			idx, _ = NewPQIndex(2, L2Squared, 2, 1)
		case 2:
			idx, _ = NewIVFPQIndex(2, L2Squared, 1, 2, 1)
		case 3:
			idx, _ = NewIVFPQIndex(2, L2Squared, 2, 2, 1)
		}
		vAssert(idx != nil, "constructor-ok")
		vAssert(idx.Train(nodes) == nil, "train-ok")
		for i, d := range data {
			vAssert(idx.Add(*NewVectorNodeWithID(uint32(i+1), vCopy(d))) == nil, "add-ok")
		}
		return idx
	}
	// the second training runs with the engine's map iteration order reversed (another legal Go order; natively Go
	// randomises it): "identical output for identical input" must not hang on the order in which a map is ranged over
	a := mk()
	vMapOrder(true)
	b := mk()
	vMapOrder(false)
	// trained state bit-identical (read in-package)
	switch ia := a.(type) {
	case *IVFIndex:
		ib := b.(*IVFIndex)
		for c := range ia.centroids {
			vAssert(vSameVec(ia.centroids[c], ib.centroids[c]), "twice-trained-identical-centroids")
		}
	case *PQIndex:
		ib := b.(*PQIndex)
		for c := range ia.codebooks {
			vAssert(vSameVec(ia.codebooks[c], ib.codebooks[c]), "twice-trained-identical-codebooks")
		}
	case *IVFPQIndex:
		ib := b.(*IVFPQIndex)
		for c := range ia.centroids {
			vAssert(vSameVec(ia.centroids[c], ib.centroids[c]), "twice-trained-identical-centroids")
		}
		for c := range ia.codebooks {
			vAssert(vSameVec(ia.codebooks[c], ib.codebooks[c]), "twice-trained-identical-codebooks")
		}
	}
	q := vCopy([][]float32{{0, 0}, {4, 4}, {-2, 0.75}}[vChoose("query", 3)])
	ra, ea := a.NewSearch().WithQuery(q).WithK(4).WithNProbes(1).Execute()
	rb, eb := b.NewSearch().WithQuery(vCopy(q)).WithK(4).WithNProbes(1).Execute()
	vAssert(ea == nil && eb == nil, "search-ok")
	vSameResults(ra, rb, "twice-trained-identical")
	vCover("ran")
	_ = math.Pi
}

func init() { vHarnesses["H_C20_kmeans_finite"] = H_C20_kmeans_finite }

// centroids have finite coordinates (bounded finite inputs), also when a cluster stays empty
func H_C20_kmeans_finite() {
	dist, _ := NewDistance(L2Squared)
	dup := vChoose("duplicate_points", 2) == 1
	a, b := vF32("a"), vF32("b")
	vAssume(vAnd(a >= -1e6, a <= 1e6))
	vAssume(vAnd(b >= -1e6, b <= 1e6))
	vecs := [][]float32{{a}, {b}, {a}}
	if !dup {
		vecs = [][]float32{{a}, {b}}
	}
	cents, assign := KMeans(vecs, 2, dist, 2)
	vAssert(len(cents) == 2 && len(assign) == len(vecs), "kmeans-shape")
	for _, c := range cents {
		vAssert(vFinite32(c[0]), "centroid-coordinates-finite")
	}
	vCover("ran")
}

func init() { vHarnesses["H_C20_nearest"] = H_C20_nearest }

// the assignment kernel of k-means (and of IVF / IVFPQ Add): for any vector and 1..3 centroids (all
// float32, no NaN distances) the index returned is in range and no centroid is strictly nearer.
func H_C20_nearest() {
	dist, _ := NewDistance(vMetrics[vChoose("metric", 3)])
	k := 1 + vChoose("k", 3)
	d := 1 + vChoose("dim", 2)
	v := vVec("v", d)
	cents := make([][]float32, k)
	for i := range cents {
		cents[i] = vVec(vName("c", i), d)
	}
	r := FindNearestCentroidIndex(v, cents, dist)
	vAssert(r >= 0 && r < k, "nearest-in-range")
	dr := dist.Calculate(v, cents[r])
	for j := range cents {
		dj := dist.Calculate(v, cents[j])
		vAssume(dj == dj) // NaN distances (overflowing components) are outside the claim
		vAssert(!(dj < dr), "nearest-has-no-strictly-nearer-centroid")
	}
	vCover("ran")
}

func init() { vHarnesses["H_C20_kmeans_box"] = H_C20_kmeans_box }

// centroids lie inside the bounding box of the training vectors — on the dyadic grid domain (coordinates k/4,
// |k| <= 32), where sums of up to four coordinates are exact and the rounding of the division is monotone, so the
// containment is exact (no tolerance): duplicate points, all-equal data and k above the number of distinct points
// (clusters that stay empty) included
func H_C20_kmeans_box() {
	dist, _ := NewDistance(L2Squared)
	a, b := vGrid32("a"), vGrid32("b")
	var vecs [][]float32
	switch vChoose("data", 4) {
	case 0:
		vecs = [][]float32{{a}, {b}}
	case 1:
		vecs = [][]float32{{a}, {b}, {a}}
	case 2:
		vecs = [][]float32{{a}, {a}, {a}}
	case 3:
		vecs = [][]float32{{a}, {a}, {b}, {b}}
	}
	k := 2
	if len(vecs) > 2 {
		k = 2 + vChoose("k", 2)
	}
	cents, assign := KMeans(vecs, k, dist, 2)
	want := k
	if len(vecs) < k {
		want = len(vecs)
	}
	vAssert(len(cents) == want && len(assign) == len(vecs), "kmeans-shape")
	inside := true // one obligation per path: every coordinate of every centroid
	for _, c := range cents {
		for d := range c {
			lo, hi := vecs[0][d], vecs[0][d]
			for _, v := range vecs[1:] {
				lo = vIteF32(v[d] < lo, v[d], lo)
				hi = vIteF32(v[d] > hi, v[d], hi)
			}
			inside = vAnd(inside, vAnd(c[d] >= lo, c[d] <= hi))
		}
	}
	vAssert(inside, "centroid-inside-the-bounding-box-of-the-training-vectors")
	vCover("ran")
}
