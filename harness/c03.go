//go:build verif

package comet

import "math"

// C03 — BM25 search returns exactly the matching documents with textbook scores.

func init() {
	vHarnesses["H_C03_score"] = H_C03_score
	vHarnesses["H_C03_step"] = H_C03_step
	vHarnesses["H_C03_step_t"] = H_C03_step_t
	vHarnesses["H_C03_tokens"] = H_C03_tokens
	vHarnesses["H_C03_multi"] = H_C03_multi
}

// textbook Okapi BM25 contribution of one term, same association as documented
func vBM25(N, df float64, tf, dl, avg float64) float64 {
	idf := math.Log((N-df+0.5)/(df+0.5) + 1.0)
	return idf * (tf * (K1 + 1)) / (tf + K1*(1-B+B*(dl/avg)))
}

// symbolic statistics: the index fields are built directly under the
// representation invariant with 3..4 documents and 2 terms; term frequencies and
// document lengths are symbolic integers; deleted set, id filter, k symbolic.
func H_C03_score() {
	ix := NewBM25SearchIndex()
	ids := []uint32{5, 3, 9}
	terms := []string{"a", "b"}
	tfv := map[string]map[uint32]int{}
	dl := map[uint32]int{}
	for n, id := range ids {
		sum := 0
		for ti, t := range terms {
			var pres bool
			switch {
			case n == 0 && ti == 0, n == 1 && ti == 1:
				pres = true
			case n == 2 && ti == 0:
				pres = false
			default:
				pres = vChoose(vName("has", n, ti), 2) == 1
			}
			if pres {
				f := vInt(vName("tf", n, ti))
				vAssume(vAnd(f >= 1, f <= 1000))
				if tfv[t] == nil {
					tfv[t] = map[uint32]int{}
				}
				tfv[t][id] = f
				sum += f
			}
		}
		extra := vInt(vName("other", n)) // tokens that are neither term
		vAssume(vAnd(extra >= 0, extra <= 1000))
		dl[id] = sum + extra
	}
	withFourth := true
	if withFourth {
		x := vInt("len4")
		vAssume(vAnd(x >= 0, x <= 1000))
		dl[7] = x
	}
	for id, l := range dl {
		ix.docLengths[id] = l
		ix.docTokens[id] = []string{} // contents are not read by search
		ix.numDocs.Add(1)
		ix.totalTokens += l
	}
	for t, m := range tfv {
		ix.tf[t] = map[uint32]int{}
		for id, f := range m {
			ix.tf[t][id] = f
			if ix.postings[t] == nil {
				ix.postings[t] = vNewBitmap()
			}
			ix.postings[t].Add(id)
		}
	}
	ix.updateAvgDocLen()
	vAssume(ix.totalTokens >= 1)
	deleted := uint32(0)
	if dsel := vChoose("deleted", 2); dsel > 0 {
		deleted = ids[dsel]
		vAssert(ix.Remove(deleted) == nil, "remove-ok")
	}
	var filt []uint32
	switch vChoose("filt", 3) {
	case 1:
		filt = []uint32{3, 9, 77} // names the (possibly soft-deleted) document 3 and a foreign id
	case 2:
		filt = []uint32{5}
	}
	query := []string{"a b", "A"}[vChoose("query", 2)]
	qt := tokenize(normalize(query))
	k := vInt("k")
	res, err := ix.NewSearch().WithQuery(query).WithK(k).WithDocumentIDs(filt...).Execute()
	vAssert(err == nil, "search-ok")
	// oracle
	N := float64(len(dl))
	type exp struct {
		id    uint32
		score float64
	}
	var E []exp
	for _, id := range ids {
		if id == deleted {
			continue
		}
		if len(filt) > 0 {
			in := false
			for _, f := range filt {
				if f == id {
					in = true
				}
			}
			if !in {
				continue
			}
		}
		sc := float64(0)
		match := false
		for _, t := range qt {
			if t == " " {
				continue
			}
			if f, ok := tfv[t][id]; ok {
				match = true
				sc += vBM25(N, float64(len(tfv[t])), float64(f), float64(dl[id]), ix.avgDocLen)
			}
		}
		if match {
			vAssume(sc == sc) // valid statistics never give NaN; at T1 the arithmetic is uninterpreted
			E = append(E, exp{id, sc})
		}
	}
	want := len(E)
	if k > 0 && k < len(E) {
		want = k
		vCover("heap-path")
	} else {
		vCover("full-path")
	}
	vAssert(len(res) == want, "exactly-the-matching-documents")
	for i, r := range res {
		ok := false
		for _, e := range E {
			if e.id == r.Id {
				ok = true
				vAssert(vSameF32(r.Score, float32(0)+float32(e.score)), "bm25-score")
			}
		}
		vAssert(ok, "result-matches-live-eligible")
		for j := 0; j < i; j++ {
			vAssert(res[j].Id != r.Id, "result-unique")
		}
		if i > 0 {
			vAssert(!(r.Score > res[i-1].Score), "descending-order")
		}
	}
	for _, e := range E {
		ret := false
		for _, r := range res {
			if r.Id == e.id {
				ret = true
			}
		}
		if !ret {
			for _, r := range res {
				for _, e2 := range E {
					if e2.id == r.Id {
						vAssert(!(e.score > e2.score), "top-k-selection")
					}
				}
			}
		}
	}
}

var vTexts = []string{"", "tick tick fox fox dog", "Ｆｏｘ, DOG!", "the quick brown fox", "dog  dog", "naïve café fox", "ﬁne fox", "fox"}

type vCorpusDoc struct {
	toks    []string
	removed bool
}

var (
	vStepIDs, vStepOps, vStepTexts, vStepQueries = 2, 4, 3, 2
	vStepFilter                                  = false
)

func H_C03_step_t() {
	vStepIDs, vStepOps, vStepTexts, vStepQueries, vStepFilter = 3, 3, 6, 6, true
	H_C03_step()
}

// histories over concrete texts: Add(fresh) | Add(existing = replace) | Remove | Flush;
// after every history the representation invariant and the search answer against a reference corpus
func H_C03_step() {
	ix := NewBM25SearchIndex()
	corpus := map[uint32]*vCorpusDoc{}
	ids := []uint32{5, 3, 9}[:vStepIDs]
	nops := 2 + vChoose("nops", vStepOps-1)
	for o := 0; o < nops; o++ {
		switch vChoose(vName("op", o), 3) {
		case 0: // add or replace
			id := ids[vChoose(vName("id", o), len(ids))]
			if d := corpus[id]; d != nil && d.removed {
				vAssume(false) // re-adding a removed id is C06's subject
			}
			text := vTexts[vChoose(vName("text", o), vStepTexts)]
			vAssert(ix.Add(id, text) == nil, "add-ok")
			corpus[id] = &vCorpusDoc{toks: tokenize(normalize(text))}
		case 1:
			id := ids[vChoose(vName("id", o), len(ids))]
			vAssert(ix.Remove(id) == nil, "remove-ok")
			if d := corpus[id]; d != nil {
				d.removed = true
			}
		case 2:
			vAssert(ix.Flush() == nil, "flush-ok")
			for id, d := range corpus {
				if d.removed {
					delete(corpus, id)
				}
			}
		}
	}
	vBM25Inv(ix, corpus)
	query := []string{"dog fox", "fox", "the", "naïve", "cat", "fine"}[vChoose("query", vStepQueries)]
	k := vInt("k")
	var filt []uint32
	if vStepFilter && vChoose("filt", 2) == 1 {
		filt = []uint32{5, 9, 77}
	}
	res, err := ix.NewSearch().WithQuery(query).WithK(k).WithDocumentIDs(filt...).Execute()
	vAssert(err == nil, "search-ok")
	vBM25Check(res, corpus, query, k, filt)
	vCover("ran")
}

// the representation invariant of the index against the reference corpus
// (removed documents still counted until Flush)
func vBM25Inv(ix *BM25SearchIndex, corpus map[uint32]*vCorpusDoc) {
	vAssert(int(ix.numDocs.Load()) == len(corpus) && len(ix.docTokens) == len(corpus), "inv-numDocs")
	total := 0
	for id, d := range corpus {
		vAssert(ix.docLengths[id] == len(d.toks), "inv-docLengths")
		vAssert(len(ix.docTokens[id]) == len(d.toks), "inv-docTokens")
		total += len(d.toks)
		vAssert(ix.deletedDocs.Contains(id) == d.removed, "inv-deleted-marks")
	}
	vAssert(ix.totalTokens == total, "inv-totalTokens")
	if len(corpus) == 0 {
		vAssert(ix.avgDocLen == 0, "inv-avgDocLen-empty")
	} else {
		vAssert(ix.avgDocLen == float64(total)/float64(len(corpus)), "inv-avgDocLen")
	}
	// tf / postings: exactly the multiplicities of the corpus, nothing left of replaced texts
	cnt := map[string]map[uint32]int{}
	for id, d := range corpus {
		for _, t := range d.toks {
			if cnt[t] == nil {
				cnt[t] = map[uint32]int{}
			}
			cnt[t][id]++
		}
	}
	vAssert(len(ix.tf) == len(cnt) && len(ix.postings) == len(cnt), "inv-vocabulary")
	for t, m := range cnt {
		vAssert(len(ix.tf[t]) == len(m), "inv-tf-docs")
		for id, c := range m {
			vAssert(ix.tf[t][id] == c, "inv-tf")
			vAssert(ix.postings[t] != nil && ix.postings[t].Contains(id), "inv-postings")
		}
		if ix.postings[t] != nil {
			vAssert(int(ix.postings[t].GetCardinality()) == len(m), "inv-postings-size")
		}
	}
}

func vBM25Check(res []TextResult, corpus map[uint32]*vCorpusDoc, query string, k int, filt []uint32) {
	qt := tokenize(normalize(query))
	N := float64(len(corpus))
	total := 0
	for _, d := range corpus {
		total += len(d.toks)
	}
	avg := float64(0)
	if len(corpus) > 0 {
		avg = float64(total) / float64(len(corpus))
	}
	type exp struct {
		id    uint32
		score float64
	}
	var E []exp
	for _, id := range []uint32{3, 5, 9} {
		d := corpus[id]
		if d == nil || d.removed {
			continue
		}
		if len(filt) > 0 {
			in := false
			for _, f := range filt {
				if f == id {
					in = true
				}
			}
			if !in {
				continue
			}
		}
		sc := float64(0)
		match := false
		for _, t := range qt {
			tf, df := 0, 0
			for _, o := range corpus {
				has := false
				for _, x := range o.toks {
					if x == t {
						has = true
					}
				}
				if has {
					df++
				}
			}
			for _, x := range d.toks {
				if x == t {
					tf++
				}
			}
			if tf > 0 {
				match = true
				sc += vBM25(N, float64(df), float64(tf), float64(len(d.toks)), avg)
			}
		}
		if match {
			E = append(E, exp{id, sc})
		}
	}
	want := len(E)
	if k > 0 && k < len(E) {
		want = k
	}
	vAssert(len(res) == want, "exactly-the-matching-documents")
	for i, r := range res {
		ok := false
		for _, e := range E {
			if e.id == r.Id {
				ok = true
				vAssert(vSameF32(r.Score, float32(0)+float32(e.score)), "bm25-score")
			}
		}
		vAssert(ok, "result-matches-live-eligible")
		if i > 0 {
			vAssert(!(r.Score > res[i-1].Score), "descending-order")
		}
	}
	for _, e := range E {
		ret := false
		for _, r := range res {
			if r.Id == e.id {
				ret = true
			}
		}
		if !ret {
			for _, r := range res {
				vAssert(!(float32(e.score) > r.Score), "top-k-selection")
			}
		}
	}
}

// tokens = UAX#29 segments of the NFKC-normalised, lower-cased text (fixed expectations through the real libraries)
func H_C03_tokens() {
	eq := func(got []string, want ...string) bool {
		if len(got) != len(want) {
			return false
		}
		for i := range got {
			if got[i] != want[i] {
				return false
			}
		}
		return true
	}
	vAssert(eq(tokenize(normalize("Hello, World")), "hello", ",", " ", "world"), "tokens-punctuation-and-space")
	vAssert(eq(tokenize(normalize("Ｆｏｘ")), "fox"), "tokens-nfkc-fullwidth")
	vAssert(eq(tokenize(normalize("ﬁne")), "fine"), "tokens-nfkc-ligature")
	vAssert(eq(tokenize(normalize(""))), "tokens-empty")
	vAssert(eq(tokenize(normalize("naïve CAFÉ")), "naïve", " ", "café"), "tokens-non-ascii-lowercase")
	// compatibility characters without a lower-case form whose NFKC expansion is upper-case
	vAssert(eq(tokenize(normalize("℡")), "tel"), "tokens-nfkc-then-lowercase")
	vAssert(eq(tokenize(normalize("™ №")), "tm", " ", "no"), "tokens-nfkc-then-lowercase")
	vAssert(eq(tokenize(normalize("㎒")), "mhz"), "tokens-nfkc-then-lowercase")
	ix := NewBM25SearchIndex()
	vAssert(ix.Add(7, "call ℡ now") == nil && ix.Add(8, "other") == nil, "add-ok")
	r, err := ix.NewSearch().WithQuery("tel").WithK(0).Execute()
	vAssert(err == nil && len(r) == 1 && r[0].Id == 7, "plain-query-finds-compatibility-character")
	r, err = ix.NewSearch().WithQuery("TEL").WithK(0).Execute()
	vAssert(err == nil && len(r) == 1 && r[0].Id == 7, "plain-query-finds-compatibility-character")
	vCover("ran")
}

// 1..2 queries combined by sum / max / mean
func H_C03_multi() {
	ix := NewBM25SearchIndex()
	corpus := map[uint32]*vCorpusDoc{}
	for i, id := range []uint32{5, 3, 9} {
		text := vTexts[1+(vChoose(vName("text", i), 3)+i)%(len(vTexts)-1)]
		ix.Add(id, text)
		corpus[id] = &vCorpusDoc{toks: tokenize(normalize(text))}
	}
	agg := vAggKinds[vChoose("agg", 3)]
	q1 := "fox"
	q2 := []string{"dog", "fox"}[vChoose("second_query", 2)] // the same query string twice counts twice
	// (per-query lists are themselves cut to k, so the rule is stated for k covering every match: ties at a per-query k-th place are outside)
	k := []int{0, 10, -1}[vChoose("k", 3)]
	queries := []string{q1, q2}
	switch vChoose("third_query", 3) { // three (and four) queries: the rule is applied once over all per-query scores of a document
	case 1:
		queries = append(queries, "tick")
	case 2:
		queries = append(queries, "dog", "tick fox")
	}
	res, err := ix.NewSearch().WithQuery(queries...).WithK(k).WithScoreAggregation(agg).Execute()
	vAssert(err == nil, "search-ok")
	type acc struct {
		id uint32
		ss []float32
	}
	var A []acc
	add := func(rs []TextResult) {
		for _, r := range rs {
			found := false
			for i := range A {
				if A[i].id == r.Id {
					A[i].ss = append(A[i].ss, r.Score)
					found = true
				}
			}
			if !found {
				A = append(A, acc{r.Id, []float32{r.Score}})
			}
		}
	}
	for _, q := range queries {
		rq, eq := ix.NewSearch().WithQuery(q).WithK(0).Execute()
		vAssert(eq == nil, "search-ok")
		add(rq)
	}
	want := len(A)
	if k > 0 && k < want {
		want = k
	}
	vAssert(len(res) == want, "multi-count")
	for i, r := range res {
		for _, a := range A {
			if a.id == r.Id {
				switch agg {
				case SumAggregation, MeanAggregation:
					s := float32(0)
					for _, x := range a.ss {
						s += x
					}
					if agg == MeanAggregation {
						s = s / float32(len(a.ss))
					}
					vAssert(vSameF32(r.Score, s), "multi-score")
				case MaxAggregation:
					vAssertIsMax(r.Score, a.ss, "multi-max")
				}
			}
		}
		if i > 0 {
			vAssert(!(r.Score > res[i-1].Score), "multi-descending")
		}
	}
	vCover("ran")
}

func init() { vHarnesses["H_C03_many"] = H_C03_many }

// more matching documents than the builder's default k (10)
func H_C03_many() {
	ix := NewBM25SearchIndex()
	corpus := map[uint32]*vCorpusDoc{}
	words := []string{"dog", "cat", "emu", "fox fox", "the"}
	for i := 0; i < 12; i++ {
		text := "fox " + words[i%5]
		if i%4 == 3 {
			text += " " + words[(i+2)%5]
		}
		id := uint32(40 - 3*i)
		vAssert(ix.Add(id, text) == nil, "add-ok")
		corpus[id] = &vCorpusDoc{toks: tokenize(normalize(text))}
	}
	ix.Remove(40 - 3*4)
	corpus[40-3*4].removed = true
	k := vInt("k")
	s := ix.NewSearch().WithQuery("fox")
	if vChoose("call_with_k", 2) == 1 {
		s = s.WithK(k)
	} else {
		k = 10
	}
	res, err := s.Execute()
	vAssert(err == nil, "search-ok")
	vBM25CheckIDs(res, corpus, "fox", k)
	if len(res) > 10 {
		vCover("more-than-default-k")
	}
}

// like vBM25Check for an arbitrary id set (12 documents)
func vBM25CheckIDs(res []TextResult, corpus map[uint32]*vCorpusDoc, query string, k int) {
	qt := tokenize(normalize(query))
	N := float64(len(corpus))
	total := 0
	for _, d := range corpus {
		total += len(d.toks)
	}
	avg := float64(total) / N
	type exp struct {
		id    uint32
		score float64
	}
	var E []exp
	for id, d := range corpus {
		if d.removed {
			continue
		}
		sc := float64(0)
		match := false
		for _, t := range qt {
			tf, df := 0, 0
			for _, o := range corpus {
				has := false
				for _, x := range o.toks {
					if x == t {
						has = true
					}
				}
				if has {
					df++
				}
			}
			for _, x := range d.toks {
				if x == t {
					tf++
				}
			}
			if tf > 0 {
				match = true
				sc += vBM25(N, float64(df), float64(tf), float64(len(d.toks)), avg)
			}
		}
		if match {
			E = append(E, exp{id, sc})
		}
	}
	want := len(E)
	if k > 0 && k < len(E) {
		want = k
	}
	vAssert(len(res) == want, "exactly-the-matching-documents")
	for i, r := range res {
		ok := false
		for _, e := range E {
			if e.id == r.Id {
				ok = true
				vAssert(vSameF32(r.Score, float32(0)+float32(e.score)), "bm25-score")
			}
		}
		vAssert(ok, "result-matches-live-eligible")
		if i > 0 {
			vAssert(!(r.Score > res[i-1].Score), "descending-order")
		}
	}
	for _, e := range E {
		ret := false
		for _, r := range res {
			if r.Id == e.id {
				ret = true
			}
		}
		if !ret {
			for _, r := range res {
				vAssert(!(float32(e.score) > r.Score), "top-k-selection")
			}
		}
	}
}
