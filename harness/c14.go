//go:build verif

package comet

// C14 — PQ / IVFPQ rank by exact asymmetric distance to each vector's quantised form.

func init() {
	vHarnesses["H_C14_pq"] = H_C14_pq
	vHarnesses["H_C14_ivfpq"] = H_C14_ivfpq
	vHarnesses["H_C14_codesize"] = H_C14_codesize
	vHarnesses["H_C14_train_min"] = H_C14_train_min
	vHarnesses["H_C14_multi"] = H_C14_multi
}

func vSubDist(a, b []float32) float32 {
	var d float32
	for i := range a {
		diff := a[i] - b[i]
		d += diff * diff
	}
	return d
}

// the stored code indexes, in every subspace, a codeword no farther than any other
func vCheckCode(code []uint8, sub []float32, codebooks [][]float32, M, Ksub, dsub int) {
	for m := 0; m < M; m++ {
		sv := sub[m*dsub : (m+1)*dsub]
		c := int(code[m])
		vAssert(c < Ksub, "code-in-range")
		if c >= Ksub {
			continue
		}
		dc := vSubDist(sv, codebooks[m][c*dsub:(c+1)*dsub])
		for k := 0; k < Ksub; k++ {
			if k != c {
				vAssert(!(vSubDist(sv, codebooks[m][k*dsub:(k+1)*dsub]) < dc), "code-is-nearest-codeword")
			}
		}
	}
}

var vPQShapes = [][3]int{{1, 1, 1}, {2, 2, 1}, {2, 1, 1}, {1, 1, 2}, {3, 1, 1}} // dim, M, nbits

// PQ: symbolic codebooks, symbolic vectors, symbolic query and k
func H_C14_pq() {
	metric := vMetrics[vChoose("metric", 3)]
	sh := vPQShapes[vChoose("shape", len(vPQShapes))]
	dim := sh[0]
	vPQM, vPQNbits = sh[1], sh[2]
	u := vMakeIndexC(vKPQ, metric, dim, 1, true)
	idx := u.pq
	n := 1
	if sh == vPQShapes[0] {
		n = 1 + vChoose("n", 2)
	}
	for i := 0; i < n; i++ {
		if vAddBoth(idx, u.m, vIDs[i], vVec(vName("v", i), dim)) {
			vCheckCode(idx.codes[len(idx.codes)-1], u.m.find(vIDs[i]).vec, idx.codebooks, idx.M, idx.Ksub, idx.dsub)
		}
	}
	if n == 2 && vChoose("remove", 2) == 1 {
		vRemoveBoth(idx, u.m, vIDs[0])
	}
	q := vVec("q", dim)
	k := vInt("k")
	th := float32(0)
	if n == 1 {
		th = vF32("th")
		vAssume(th >= 0)
	}
	res, err := idx.NewSearch().WithQuery(q).WithK(k).WithThreshold(th).Execute()
	pq, perr := u.m.dist.Preprocess(vCopy(q))
	if len(u.m.entries) == 0 {
		vAssert(err == nil && len(res) == 0, "empty-index-empty-result")
		return
	}
	vAssert((err == nil) == (perr == nil), "search-error-iff-query-rejected")
	if err != nil {
		return
	}
	vCheckExact(res, u.m.eligible(pq, th, nil), k) // scoreFn = Euclidean distance to the reconstruction
	vCover("searched")
}

// IVFPQ: residual to the assigned centroid coded to the nearest codewords;
// score = distance between the query residual and the reconstruction;
// exact top-k over the live vectors of the probed clusters
func H_C14_ivfpq() {
	metric := vMetrics[vChoose("metric", 3)]
	sh := vPQShapes[[]int{0, 1, 4}[vChoose("shape", 3)]]
	dim := sh[0]
	vPQM, vPQNbits = sh[1], sh[2]
	nlist := 1
	n := 1
	if dim == 1 {
		nlist = 1 + vChoose("nlist", 2)
		if nlist == 1 {
			n = 1 + vChoose("n", 2)
		}
	}
	u := vMakeIndexC(vKIVFPQ, metric, dim, nlist, true)
	idx := u.ivfpq
	for i := 0; i < n; i++ {
		if !vAddBoth(idx, u.m, vIDs[i], vVec(vName("v", i), dim)) {
			continue
		}
		found := 0
		for li, list := range idx.lists {
			for _, cv := range list {
				if cv.Node.ID() == vIDs[i] {
					found++
					e := u.m.find(vIDs[i])
					dAt := u.m.dist.Calculate(e.vec, idx.centroids[li])
					for c := range idx.centroids {
						if c != li {
							vAssert(!(u.m.dist.Calculate(e.vec, idx.centroids[c]) < dAt), "assigned-to-nearest-centroid")
						}
					}
					res := make([]float32, dim)
					for d := range res {
						res[d] = e.vec[d] - idx.centroids[li][d]
					}
					vCheckCode(cv.Code, res, idx.codebooks, idx.M, idx.Ksub, idx.dsub)
				}
			}
		}
		vAssert(found == 1, "stored-in-exactly-one-list")
	}
	q := vVec("q", dim)
	k := vInt("k")
	nprobes := []int{0, 1}[vChoose("nprobes", 2)]
	th := float32(0)
	if n == 1 {
		th = vF32("th")
		vAssume(th >= 0)
	}
	res, err := idx.NewSearch().WithQuery(q).WithK(k).WithNProbes(nprobes).WithThreshold(th).Execute()
	pq, perr := u.m.dist.Preprocess(vCopy(q))
	vAssert((err == nil) == (perr == nil), "search-error-iff-query-rejected")
	if err != nil {
		return
	}
	if nprobes == 0 || nlist == 1 {
		vCheckExact(res, u.m.eligible(pq, th, nil), k)
		vCover("full-probe")
		return
	}
	// one probe of two: the cluster whose centroid is strictly nearer (ties outside)
	d0 := u.m.dist.Calculate(pq, idx.centroids[0])
	d1 := u.m.dist.Calculate(pq, idx.centroids[1])
	vAssume(vAnd(d0 == d0, d1 == d1))
	vAssume(d0 != d1)
	probe := 0
	if d1 < d0 {
		probe = 1
	}
	var sub vRef
	sub.dist, sub.scoreFn = u.m.dist, u.m.scoreFn
	for _, cv := range idx.lists[probe] {
		if e := u.m.find(cv.Node.ID()); e != nil {
			sub.entries = append(sub.entries, *e)
		}
	}
	vCheckExact(res, sub.eligible(pq, th, nil), k)
	vCover("partial-probe")
}

// every code size the constructors accept: the stored code must index the
// nearest codeword (concrete 2^nbits-entry codebook 0,1,2,...; vectors near
// the first, a middle and the last codeword)
func H_C14_codesize() {
	nbits := 1 + vChoose("nbits", 17) // 1..17
	ivf := vChoose("ivfpq", 2) == 1
	vTag("kind=" + []string{"pq", "ivfpq"}[b2i(ivf)])
	Ksub := 1 << nbits
	cb := make([]float32, Ksub)
	for i := range cb {
		cb[i] = float32(i)
	}
	want := []int{0, Ksub / 2, Ksub - 1}[vChoose("where", 3)]
	v := []float32{float32(want) + 0.25}
	if want == Ksub-1 {
		v[0] = float32(want) - 0.25
	}
	if ivf {
		idx, err := NewIVFPQIndex(1, L2Squared, 1, 1, nbits)
		if err != nil {
			vCover("rejected")
			return
		}
		idx.centroids = [][]float32{{0}}
		idx.codebooks = [][]float32{cb}
		idx.trained = true
		vAssert(idx.Add(*NewVectorNodeWithID(5, vCopy(v))) == nil, "add")
		vAssert(int(idx.lists[0][0].Code[0]) == want, "code-is-nearest-codeword")
		res, e := idx.NewSearch().WithQuery([]float32{v[0]}).WithK(1).Execute()
		vAssert(e == nil && len(res) == 1, "found")
		if len(res) == 1 {
			vAssert(res[0].Score < 0.5, "score-is-distance-to-nearest-codeword")
		}
	} else {
		idx, err := NewPQIndex(1, L2Squared, 1, nbits)
		if err != nil {
			vCover("rejected")
			return
		}
		idx.codebooks = [][]float32{cb}
		idx.trained = true
		vAssert(idx.Add(*NewVectorNodeWithID(5, vCopy(v))) == nil, "add")
		vAssert(int(idx.codes[0][0]) == want, "code-is-nearest-codeword")
		res, e := idx.NewSearch().WithQuery([]float32{v[0]}).WithK(1).Execute()
		vAssert(e == nil && len(res) == 1, "found")
		if len(res) == 1 {
			vAssert(res[0].Score < 0.5, "score-is-distance-to-nearest-codeword")
		}
	}
	vCover("accepted")
}

func b2i(b bool) int {
	if b {
		return 1
	}
	return 0
}

// Train with exactly the minimum accepted training-set size must work (no panic) for every accepted small shape
func H_C14_train_min() {
	nbits := 1 + vChoose("nbits", 5) // 1..5
	ivf := vChoose("ivfpq", 2) == 1
	vTag("kind=" + []string{"pq", "ivfpq"}[b2i(ivf)])
	mk := func(n int) []VectorNode {
		vs := make([]VectorNode, n)
		for i := range vs {
			vs[i] = *NewVectorNodeWithID(uint32(i+1), []float32{float32(i*7%13) + 0.5*float32(i)})
		}
		return vs
	}
	if ivf {
		nlist := 1 + vChoose("nlist", 2)
		idx, err := NewIVFPQIndex(1, L2Squared, nlist, 1, nbits)
		vAssert(err == nil, "constructor")
		// smallest n Train accepts: try n = 1.. until it does not return an error
		for n := 1; n <= 64; n++ {
			if idx.Train(mk(n)) == nil {
				vAssert(idx.Trained(), "trained")
				vAssert(idx.Add(*NewVectorNodeWithID(999, []float32{3.25})) == nil, "add-after-min-train")
				_, e := idx.NewSearch().WithQuery([]float32{3}).WithK(1).Execute()
				vAssert(e == nil, "search-after-min-train")
				vCover("trained")
				return
			}
		}
	} else {
		idx, err := NewPQIndex(1, L2Squared, 1, nbits)
		vAssert(err == nil, "constructor")
		for n := 1; n <= 64; n++ {
			if idx.Train(mk(n)) == nil {
				vAssert(idx.Trained(), "trained")
				vAssert(idx.Add(*NewVectorNodeWithID(999, []float32{3.25})) == nil, "add-after-min-train")
				_, e := idx.NewSearch().WithQuery([]float32{3}).WithK(1).Execute()
				vAssert(e == nil, "search-after-min-train")
				vCover("trained")
				return
			}
		}
	}
	vAssert(false, "no-accepted-training-size-up-to-64")
}

// repeated / batched searches: every query of a batch and every Execute on the
// same builder is scored from its own distance tables
func H_C14_multi() {
	ivf := vChoose("ivfpq", 2) == 1
	kind := vKPQ
	if ivf {
		kind = vKIVFPQ
	}
	vPQM, vPQNbits = 1, 1
	u := vMakeIndexC(kind, L2Squared, 1, 1, true)
	vAddBoth(u.idx, u.m, 5, vVec("v0", 1))
	vAddBoth(u.idx, u.m, 3, vVec("v1", 1))
	q1, q2 := vVec("q1", 1), vVec("q2", 1)
	s := u.idx.NewSearch().WithQuery(q1).WithK(5)
	r1, e1 := s.Execute()
	r2, e2 := s.Execute()
	vAssert(e1 == nil && e2 == nil, "search-ok")
	vSameResults(r1, r2, "second-execute-same-result")
	sn := u.idx.NewSearch().WithNode(5).WithK(5)
	n1, en1 := sn.Execute()
	n2, en2 := sn.Execute()
	vAssert((en1 == nil) == (en2 == nil), "second-execute-same-error")
	if en1 == nil && en2 == nil {
		vSameResults(n1, n2, "second-execute-same-result-node-query")
		// a node query is the query with that node's stored vector: scored against the reconstructions, not from the node's code
		if e := u.m.find(5); e != nil {
			rq, eq := u.idx.NewSearch().WithQuery(vCopy(e.vec)).WithK(5).Execute()
			vAssert(eq == nil, "search-ok")
			vSameResults(n1, rq, "node-query-equals-query-with-the-stored-vector")
		}
	}
	// the same search object once more after the index has grown past what it held at the first Execute
	if vChoose("grow", 2) == 1 {
		if vAddBoth(u.idx, u.m, 9, []float32{0.75}) {
			r4, e4 := s.Execute()
			vAssert(e4 == nil, "search-ok")
			vCheckExact(r4, u.m.eligible(q1, 0, nil), 5)
		}
		vCover("ran")
		return
	}
	r3, e3 := u.idx.NewSearch().WithQuery(q1, q2).WithK(5).WithScoreAggregation(MaxAggregation).Execute()
	vAssert(e3 == nil && len(r3) == 2, "batch-ok")
	for i := range u.m.entries {
		e := &u.m.entries[i]
		d1, d2 := u.m.scoreFn(q1, e), u.m.scoreFn(q2, e)
		vAssume(vAnd(d1 == d1, d2 == d2))
		for _, r := range r3 {
			if r.GetId() == e.id {
				vAssertIsMax(r.Score, []float32{d1, d2}, "batch-max")
			}
		}
	}
	vCover("ran")
}

func init() { vHarnesses["H_C14_update"] = H_C14_update }

// histories: a stored vector is removed and added again under the same id, with content that lies in the same or in
// the other coarse cluster, with or without a Flush in between, another removal possibly pending; afterwards the
// answer is the exact top-k by reconstruction distance over the live vectors (all clusters / the nearest cluster)
func H_C14_update() {
	ivf := vChoose("ivfpq", 2) == 1
	kind := vKPQ
	nlist := 1
	if ivf {
		kind, nlist = vKIVFPQ, 2
	}
	vPQM, vPQNbits, vPQConcreteCB = 2, 1, true
	u := vMakeIndexC(kind, L2Squared, 2, nlist, false) // centroids (0,1) and (4,3)
	vAddBoth(u.idx, u.m, 5, []float32{0.5, 1.25})
	vAddBoth(u.idx, u.m, 3, []float32{3.5, 2.75})
	vAddBoth(u.idx, u.m, 9, []float32{-0.5, 0.5})
	if vChoose("other_removal_pending", 2) == 1 {
		vRemoveBoth(u.idx, u.m, 9)
	}
	vRemoveBoth(u.idx, u.m, 5)
	if vChoose("flush_between", 2) == 1 {
		vFlushBoth(u.idx, u.m)
	}
	vAddBoth(u.idx, u.m, 5, vCopy([][]float32{{0.25, 0.75}, {4.5, 3.25}}[vChoose("new_content_in_cluster", 2)]))
	q := []float32{vF32("qx"), 2}
	vAssume(vAnd(q[0] >= -16, q[0] <= 16))
	k := vInt("k")
	for pass := 0; pass < 2; pass++ {
		res, err := u.idx.NewSearch().WithQuery(vCopy(q)).WithK(k).WithNProbes(0).Execute()
		vAssert(err == nil, "search-ok")
		vCheckExact(res, u.m.eligible(q, 0, nil), k)
		if ivf {
			// one probe: the cluster whose centroid is strictly nearer
			idx := u.ivfpq
			d0 := u.m.dist.Calculate(q, idx.centroids[0])
			d1 := u.m.dist.Calculate(q, idx.centroids[1])
			vAssume(d0 != d1)
			probe := 0
			if d1 < d0 {
				probe = 1
			}
			var sub vRef
			sub.dist, sub.scoreFn = u.m.dist, u.m.scoreFn
			for _, cv := range idx.lists[probe] {
				if e := u.m.find(cv.Node.ID()); e != nil && e.live {
					sub.entries = append(sub.entries, *e)
				}
			}
			r1, e1 := u.idx.NewSearch().WithQuery(vCopy(q)).WithK(k).WithNProbes(1).Execute()
			vAssert(e1 == nil, "search-ok")
			vCheckExact(r1, sub.eligible(q, 0, nil), k)
		}
		if pass == 0 {
			vFlushBoth(u.idx, u.m)
		}
	}
	vCover("ran")
}
