//go:build verif

package comet

import "io"

// C16 — truncated or mismatched serialised data is rejected, never half-loaded.

func init() {
	vHarnesses["H_C16_truncate"] = H_C16_truncate
	vHarnesses["H_C16_mismatch"] = H_C16_mismatch
	vHarnesses["H_C16_truncate_hybrid"] = H_C16_truncate_hybrid
	vHarnesses["H_C16_segment"] = H_C16_segment
	vHarnesses["H_C16_segment_load"] = H_C16_segment_load
}

// the loading step itself (segmentMetadata.getIndex, the unit the store's searches go through): for the
// same damaged segments as H_C16_segment every attempt to load reports an error and nothing is cached
func H_C16_segment_load() {
	vStoreTemplates = []int{0, 3}[vChoose("templates", 2)]
	dir := vTempDir()
	s, err := OpenPersistentHybridIndex(vFreshStoreCfg(dir, false))
	vAssert(err == nil, "open-ok")
	for _, d := range vStoreDocs[:2] {
		vAssert(s.AddWithID(d.id, []float32{d.vec}, d.text, map[string]interface{}{"c": d.c}) == nil, "add-ok")
	}
	vAssert(s.Flush() == nil, "flush-ok")
	vAssert(s.Close() == nil, "close-ok")
	kinds := []string{"hybrid", "vector", "text", "metadata"}
	if vStoreTemplates == 3 {
		kinds = kinds[:2]
	}
	kind := kinds[vChoose("file", len(kinds))]
	vTag("file=" + kind)
	path := dir + "/" + vSegName(kind, 1)
	size := vFSSize(path)
	attempt := func() {
		cfg := vFreshStoreCfg(dir, false)
		seg := newSegmentMetadata(1, dir+"/"+vSegName("hybrid", 1), dir+"/"+vSegName("vector", 1), dir+"/"+vSegName("text", 1), dir+"/"+vSegName("metadata", 1))
		for try := 0; try < 3; try++ {
			ix, gerr := seg.getIndex(cfg.VectorIndexTemplate, cfg.TextIndexTemplate, cfg.MetadataIndexTemplate)
			vAssert(gerr != nil && ix == nil, "every-load-attempt-of-a-damaged-segment-reports-an-error")
			vAssert(seg.cachedIndex == nil, "damaged-segment-is-not-cached")
		}
	}
	if vChoose("missing", 2) == 1 {
		vFSRemove(path)
		attempt()
		vCover("missing")
		return
	}
	if !vSymbolic() {
		orig := vFSReadAll(path)
		for p := 0; p < len(orig); p++ {
			vFSWriteAll(path, orig[:p])
			attempt()
		}
		return
	}
	vFSTruncate(path, vChoose("prefix", size))
	attempt()
	vCover("truncated")
}

// a segment with a truncated, empty or missing component file contributes nothing to search results:
// one flushed segment (two documents), one of its gzip files cut to any strict prefix / emptied / deleted,
// the directory reopened with fresh templates and searched by vector, text and metadata
func H_C16_segment() {
	vStoreTemplates = []int{0, 3}[vChoose("templates", 2)]
	dir := vTempDir()
	s, err := OpenPersistentHybridIndex(vFreshStoreCfg(dir, false))
	vAssert(err == nil, "open-ok")
	for _, d := range vStoreDocs[:2] {
		vAssert(s.AddWithID(d.id, []float32{d.vec}, d.text, map[string]interface{}{"c": d.c}) == nil, "add-ok")
	}
	vAssert(s.Flush() == nil, "flush-ok")
	vAssert(s.Close() == nil, "close-ok")
	kinds := []string{"hybrid", "vector", "text", "metadata"}
	if vStoreTemplates == 3 {
		kinds = kinds[:2]
	}
	kind := kinds[vChoose("file", len(kinds))]
	vTag("file=" + kind)
	path := dir + "/" + vSegName(kind, 1)
	size := vFSSize(path)
	vAssert(size > 0, "component-file-written")
	check := func(what string) {
		s2, err2 := OpenPersistentHybridIndex(vFreshStoreCfg(dir, false))
		vAssert(err2 == nil, "open-with-a-damaged-segment-ok")
		if err2 != nil {
			return
		}
		r, e := s2.NewSearch().WithVector([]float32{1}).WithK(10).Execute()
		vAssert(e != nil || len(r) == 0, what+"-segment-contributes-nothing-to-vector-search")
		if s2.config.TextIndexTemplate != nil {
			rt, e2 := s2.NewSearch().WithText("fox").WithK(10).Execute()
			vAssert(e2 != nil || len(rt) == 0, what+"-segment-contributes-nothing-to-text-search")
		}
		if s2.config.MetadataIndexTemplate != nil {
			rm, e3 := s2.NewSearch().WithMetadata(Eq("c", "x")).WithK(10).Execute()
			vAssert(e3 != nil || len(rm) == 0, what+"-segment-contributes-nothing-to-metadata-search")
		}
		rv2, ev2 := s2.NewSearch().WithVector([]float32{1}).WithK(10).Execute()
		vAssert(ev2 != nil || len(rv2) == 0, what+"-segment-contributes-nothing-to-a-second-vector-search")
		vAssert(s2.Close() == nil, "close-ok")
	}
	if vChoose("missing", 2) == 1 {
		vFSRemove(path)
		check("missing")
		vCover("missing")
		return
	}
	if !vSymbolic() {
		// native replay: the real gzip files have other lengths than the framing model's: every strict prefix
		orig := vFSReadAll(path)
		for p := 0; p < len(orig); p++ {
			vFSWriteAll(path, orig[:p])
			check("truncated")
		}
		return
	}
	p := vChoose("prefix", size) // 0 = empty file
	vFSTruncate(path, p)
	if p >= size-5 {
		vTag("cut-in-trailer")
	}
	check("truncated")
	vCover("truncated")
}

const (
	vSFlat = iota
	vSHNSW
	vSIVF
	vSPQ
	vSIVFPQ
	vSBM25
	vSMeta
	vSKinds
)

var vSNames = []string{"flat", "hnsw", "ivf", "pq", "ivfpq", "bm25", "metadata"}

type vSer interface {
	io.WriterTo
	io.ReaderFrom
}

// vStreamState builds an index of the given serialisable kind: populated, or (when not populated) fresh
// — for the trainable kinds that means untrained
func vStreamState(kind int, populated bool) vSer {
	st := 0
	if populated {
		st = 2
	}
	return vStreamStateM(kind, st, L2Squared)
}

// state 0: fresh (untrained); 1: trained but empty (= fresh for the kinds without training); 2: populated
func vStreamStateM(kind int, state int, metric DistanceKind) vSer {
	populated := state == 2
	vPQM, vPQNbits, vPQConcreteCB = 2, 1, true
	switch kind {
	case vSBM25:
		ix := NewBM25SearchIndex()
		if populated {
			ix.Add(5, "tick tick fox dog")
			ix.Add(3, "Ｆｏｘ")
		}
		return ix
	case vSMeta:
		mi := NewRoaringMetadataIndex()
		if populated {
			mi.Add(*NewMetadataNodeWithID(5, map[string]interface{}{"s": "a", "i": int64(-7), "f": 2.5}))
			mi.Add(*NewMetadataNodeWithID(3, map[string]interface{}{"s": "", "b": true, "i": int64(12)}))
		}
		return mi
	}
	nlist := 1
	if kind == vSIVF || kind == vSIVFPQ {
		nlist = 2
	}
	if state == 0 {
		return vFreshLike(kind, metric, 2, nlist)
	}
	u := vMakeIndexC(kind, metric, 2, nlist, false)
	for i := 0; i < 3 && populated; i++ {
		vAssert(u.idx.Add(*NewVectorNodeWithID(vIDs[i], vCopy(vConcreteVecs[i]))) == nil, "add-ok")
	}
	return u.idx
}

func vStreamFresh(kind int) vSer {
	switch kind {
	case vSBM25:
		return NewBM25SearchIndex()
	case vSMeta:
		return NewRoaringMetadataIndex()
	}
	nlist := 1
	if kind == vSIVF || kind == vSIVFPQ {
		nlist = 2
	}
	vPQM, vPQNbits = 2, 1
	return vFreshLike(kind, L2Squared, 2, nlist)
}

// every strict prefix of a valid stream is rejected with an error: no panic, no hang, no success
func H_C16_truncate() {
	vPickReaderChunk()
	defer func() { vBufChunk = 0 }()
	kind := vChoose("kind", vSKinds)
	vTag("kind=" + vSNames[kind])
	state := vChoose("state", 3)
	if state == 1 && (kind == vSFlat || kind == vSHNSW || kind == vSBM25 || kind == vSMeta) {
		vAssume(false) // no training: same stream as state 0
	}
	src := vStreamStateM(kind, state, L2Squared)
	buf := vNewBuf()
	n, err := src.WriteTo(buf)
	vAssert(err == nil && int(n) == len(buf.b), "write-ok")
	p := vChoose("prefix", len(buf.b)) // every prefix length 0..len-1
	if !vSymbolic() {
		// native replay: the real roaring / BSI byte formats have other lengths than the models',
		// so the replayed offset may name another field boundary: confirm against every prefix
		for p = 0; p < len(buf.b); p++ {
			b2 := &vBuf{b: buf.b, limit: p, chunk: vBufChunk}
			_, rerr := vStreamFresh(kind).ReadFrom(b2)
			vAssert(rerr != nil, "strict-prefix-is-rejected")
		}
		return
	}
	buf.limit = p
	dst := vStreamFresh(kind)
	_, rerr := dst.ReadFrom(buf)
	vAssert(rerr != nil, "strict-prefix-is-rejected")
	vC16StillEmpty(kind, dst)
	vCover("ran")
}

// never half-loaded: after a rejected read the receiver holds none of the stream's documents (for the kinds
// that assign their state only after a full decode: flat, hnsw, ivf, pq, bm25, metadata)
func vC16StillEmpty(kind int, dst vSer) {
	switch x := dst.(type) {
	case *BM25SearchIndex:
		r, _ := x.NewSearch().WithQuery("fox").WithK(0).Execute()
		vAssert(len(r) == 0, "rejected-read-leaves-the-receiver-empty")
	case *RoaringMetadataIndex:
		r, _ := x.NewSearch().Execute()
		vAssert(len(r) == 0, "rejected-read-leaves-the-receiver-empty")
	case VectorIndex:
		if kind == vSIVFPQ {
			return
		}
		ids, _ := vStoredIDs(x)
		vAssert(len(ids) == 0, "rejected-read-leaves-the-receiver-empty")
		if x.Trained() {
			r, _ := x.NewSearch().WithQuery([]float32{1, 0}).WithK(0).WithNProbes(0).Execute()
			vAssert(len(r) == 0, "rejected-read-leaves-the-receiver-empty")
		}
	}
}

func H_C16_truncate_hybrid() {
	vPickReaderChunk()
	defer func() { vBufChunk = 0 }()
	withText := vChoose("with_text", 2) == 1
	mk := func(populated bool) HybridSearchIndex {
		flat, _ := NewFlatIndex(2, L2Squared)
		var ti TextIndex
		if withText {
			ti = NewBM25SearchIndex()
		}
		h := NewHybridSearchIndex(flat, ti, NewRoaringMetadataIndex())
		if populated {
			h.AddWithID(5, []float32{1, 0}, "fox dog", map[string]interface{}{"c": "x", "n": 3})
			h.AddWithID(3, []float32{0, 2}, "", map[string]interface{}{"c": "y"})
		}
		return h
	}
	src := mk(true)
	hb, vb, tb, mb := vNewBuf(), vNewBuf(), vNewBuf(), vNewBuf()
	vAssert(src.WriteTo(hb, vb, tb, mb) == nil, "write-ok")
	all := vNewBuf()
	all.b = append(all.b, hb.b...)
	all.b = append(all.b, vb.b...)
	all.b = append(all.b, tb.b...)
	all.b = append(all.b, mb.b...)
	all.limit = vChoose("prefix", len(all.b))
	if !vSymbolic() {
		for p := 0; p < len(all.b); p++ {
			b2 := &vBuf{b: all.b, limit: p, chunk: vBufChunk}
			_, rerr := mk(false).ReadFrom(b2)
			vAssert(rerr != nil, "strict-prefix-is-rejected")
		}
		return
	}
	dst := mk(false)
	_, rerr := dst.ReadFrom(all)
	vAssert(rerr != nil, "strict-prefix-is-rejected")
	vCover("ran")
}

// a stream of another kind, another format version or other construction parameters is rejected
func H_C16_mismatch() {
	kind := vChoose("kind", vSKinds)
	vTag("kind=" + vSNames[kind])
	what := vChoose("mismatch", 4)
	par := 0
	if what == 2 {
		par = vChoose("param", 4)
	}
	// the writer's state: fresh (untrained), trained-empty, populated; its metric is varied where the
	// metric is the parameter that differs
	state := 2
	if what != 3 {
		state = vChoose("state", 3)
		if state == 1 && (kind == vSFlat || kind == vSHNSW || kind == vSBM25 || kind == vSMeta) {
			vAssume(false)
		}
	}
	srcMetric, dstMetric := L2Squared, Cosine
	if what == 2 && par == 1 && kind < vSBM25 {
		si := vChoose("src_metric", 3)
		di := vChoose("dst_metric", 2)
		if di >= si {
			di++
		}
		srcMetric, dstMetric = vMetrics[si], vMetrics[di]
		vTag("metrics=" + string(srcMetric) + "->" + string(dstMetric))
	}
	vTag(vName("state", state))
	src := vStreamStateM(kind, state, srcMetric)
	buf := vNewBuf()
	_, err := src.WriteTo(buf)
	vAssert(err == nil, "write-ok")
	var dst vSer
	vPQM, vPQNbits = 2, 1
	mk := func(f func() (VectorIndex, error)) vSer {
		x, e := f()
		vAssert(e == nil, "constructor")
		return x
	}
	switch what {
	case 0: // receiver of another kind
		other := vChoose("other_kind", vSKinds-1)
		if other >= kind {
			other++
		}
		dst = vStreamFresh(other)
		vTag("receiver=" + vSNames[other])
	case 1: // another format version (the 4 bytes after the magic)
		buf.b[4] = 2
		dst = vStreamFresh(kind)
		vTag("version")
	case 2: // receiver differing in exactly one construction parameter
		switch kind {
		case vSFlat:
			switch par {
			case 0:
				dst = mk(func() (VectorIndex, error) { return NewFlatIndex(3, L2Squared) })
			case 1:
				dst = mk(func() (VectorIndex, error) { return NewFlatIndex(2, dstMetric) })
			default:
				vAssume(false)
			}
		case vSHNSW:
			switch par {
			case 0:
				dst = mk(func() (VectorIndex, error) { return NewHNSWIndex(3, L2Squared, 2, 8, 8) })
			case 1:
				dst = mk(func() (VectorIndex, error) { return NewHNSWIndex(2, dstMetric, 2, 8, 8) })
			case 2:
				dst = mk(func() (VectorIndex, error) { return NewHNSWIndex(2, L2Squared, 3, 8, 8) })
			case 3:
				if vChoose("which_ef", 2) == 0 {
					dst = mk(func() (VectorIndex, error) { return NewHNSWIndex(2, L2Squared, 2, 9, 8) })
				} else {
					dst = mk(func() (VectorIndex, error) { return NewHNSWIndex(2, L2Squared, 2, 8, 9) })
				}
			}
		case vSIVF:
			switch par {
			case 0:
				dst = mk(func() (VectorIndex, error) { return NewIVFIndex(3, 2, L2Squared) })
			case 1:
				dst = mk(func() (VectorIndex, error) { return NewIVFIndex(2, 2, dstMetric) })
			case 2:
				dst = mk(func() (VectorIndex, error) { return NewIVFIndex(2, 3, L2Squared) })
			default:
				vAssume(false)
			}
		case vSPQ:
			switch par {
			case 0:
				dst = mk(func() (VectorIndex, error) { return NewPQIndex(4, L2Squared, 2, 1) })
			case 1:
				dst = mk(func() (VectorIndex, error) { return NewPQIndex(2, dstMetric, 2, 1) })
			case 2:
				dst = mk(func() (VectorIndex, error) { return NewPQIndex(2, L2Squared, 1, 1) })
			case 3:
				dst = mk(func() (VectorIndex, error) { return NewPQIndex(2, L2Squared, 2, 2) })
			}
		case vSIVFPQ:
			switch par {
			case 0:
				dst = mk(func() (VectorIndex, error) { return NewIVFPQIndex(2, L2Squared, 3, 2, 1) })
			case 1:
				dst = mk(func() (VectorIndex, error) { return NewIVFPQIndex(2, dstMetric, 2, 2, 1) })
			case 2:
				dst = mk(func() (VectorIndex, error) { return NewIVFPQIndex(2, L2Squared, 2, 1, 1) })
			case 3:
				dst = mk(func() (VectorIndex, error) { return NewIVFPQIndex(2, L2Squared, 2, 2, 2) })
			}
		default:
			vAssume(false) // bm25 / metadata have no construction parameters
		}
		vTag(vName("param", par))
	case 3: // hybrid: sub-index presence differs
		if kind != vSFlat {
			vAssume(false)
		}
		flat, _ := NewFlatIndex(2, L2Squared)
		h := NewHybridSearchIndex(flat, NewBM25SearchIndex(), nil)
		h.AddWithID(5, []float32{1, 0}, "fox", nil)
		hb, vb, tb := vNewBuf(), vNewBuf(), vNewBuf()
		vAssert(h.WriteTo(hb, vb, tb, nil) == nil, "write-ok")
		all := vNewBuf()
		all.b = append(append(append(all.b, hb.b...), vb.b...), tb.b...)
		flat2, _ := NewFlatIndex(2, L2Squared)
		var h2 HybridSearchIndex
		switch vChoose("presence", 3) {
		case 0:
			h2 = NewHybridSearchIndex(flat2, nil, nil)
		case 1:
			h2 = NewHybridSearchIndex(flat2, NewBM25SearchIndex(), NewRoaringMetadataIndex())
		case 2:
			h2 = NewHybridSearchIndex(nil, NewBM25SearchIndex(), nil)
		}
		_, rerr := h2.ReadFrom(all)
		vAssert(rerr != nil, "presence-mismatch-is-rejected")
		vCover("ran")
		return
	}
	_, rerr := dst.ReadFrom(buf)
	vAssert(rerr != nil, "mismatched-stream-is-rejected")
	vCover("ran")
}
