//go:build verif

package comet

// C04 — metadata filters return exactly the documents that satisfy the predicate.

func init() {
	vHarnesses["H_C04_int"] = H_C04_int
	vHarnesses["H_C04_int_not"] = H_C04_int_not
	vHarnesses["H_C04_float"] = H_C04_float
	vHarnesses["H_C04_cat"] = H_C04_cat
	vHarnesses["H_C04_groups"] = H_C04_groups
	vHarnesses["H_C04_history"] = H_C04_history
}

type vDoc struct {
	id                     uint32
	hasS, hasB, hasI, hasF bool
	s                      string
	b                      bool
	i                      int64
	f                      float64
	live                   bool
}

func (d *vDoc) meta() map[string]interface{} {
	m := map[string]interface{}{}
	if d.hasS {
		m["s"] = d.s
	}
	if d.hasB {
		m["b"] = d.b
	}
	if d.hasI {
		m["i"] = d.i
	}
	if d.hasF {
		m["f"] = d.f
	}
	return m
}

func vFix(x float64) int64 { return int64(x * 100) } // two-decimal fixed point, as the index stores floats

// vEval: ordinary comparison semantics of one filter on one document.
// ok=false: operator / operand combination outside the equality assertion.
func vEval(d *vDoc, f Filter) (res bool, ok bool) {
	switch f.Field {
	case "i", "f":
		has := d.hasI
		var v int64
		if f.Field == "i" {
			v = d.i
		} else {
			has = d.hasF
			v = vFix(d.f)
		}
		switch f.Operator {
		case OpExists:
			return has, true
		case OpNotExists:
			return !has, true
		}
		conv := func(x interface{}) int64 {
			switch c := x.(type) {
			case int64:
				return c
			case int:
				return int64(c)
			case float64:
				return vFix(c)
			}
			return 0
		}
		c := conv(f.Value)
		if !has {
			return false, true // numeric operators (incl. ne) only match documents that have the field
		}
		switch f.Operator {
		case OpEqual:
			return v == c, true
		case OpNotEqual:
			return v != c, true
		case OpGreaterThan:
			return v > c, true
		case OpGreaterThanOrEqual:
			return v >= c, true
		case OpLessThan:
			return v < c, true
		case OpLessThanOrEqual:
			return v <= c, true
		case OpRange:
			c2 := conv(f.Value2)
			return vAnd(v >= c, v <= c2), true
		}
		return false, false
	case "s", "b":
		has := d.hasS
		val := d.s
		if f.Field == "b" {
			has = d.hasB
			val = "false"
			if d.b {
				val = "true"
			}
		}
		str := func(x interface{}) string {
			switch c := x.(type) {
			case string:
				return c
			case bool:
				if c {
					return "true"
				}
				return "false"
			}
			return "?"
		}
		switch f.Operator {
		case OpExists:
			return has, true
		case OpNotExists:
			return !has, true
		case OpEqual:
			return has && val == str(f.Value), true
		case OpNotEqual:
			return !(has && val == str(f.Value)), true
		case OpIn, OpNotIn:
			in := false
			for _, x := range f.Value.([]interface{}) {
				if has && val == str(x) {
					in = true
				}
			}
			if f.Operator == OpIn {
				return in, true
			}
			return !in, true
		}
		return false, false
	default: // a field that no document carries
		switch f.Operator {
		case OpExists, OpEqual, OpIn:
			return false, true
		case OpNotExists, OpNotEqual, OpNotIn:
			return true, true
		}
		return false, false
	}
}

func vCheckIDs(res []MetadataResult, docs []*vDoc, want func(d *vDoc) bool, label string) {
	for _, r := range res {
		known := false
		for _, d := range docs {
			if d.id == r.GetId() {
				known = true
			}
		}
		vAssert(known, label+"-no-foreign-id")
	}
	for i, r := range res {
		for j := 0; j < i; j++ {
			vAssert(res[j].GetId() != r.GetId(), label+"-unique")
		}
	}
	for _, d := range docs {
		in := false
		for _, r := range res {
			if r.GetId() == d.id {
				in = true
			}
		}
		w := vAnd(d.live, want(d))
		if in {
			vAssert(w, label+"-returned-only-if-satisfied")
		} else {
			vAssert(!w, label+"-every-satisfying-doc-returned")
		}
	}
}

func vMetaIndex(docs []*vDoc) *RoaringMetadataIndex {
	idx := NewRoaringMetadataIndex()
	for _, d := range docs {
		vAssert(idx.Add(*NewMetadataNodeWithID(d.id, d.meta())) == nil, "add-ok")
		d.live = true
	}
	return idx
}

var vNumOps = []Operator{OpEqual, OpNotEqual, OpGreaterThan, OpGreaterThanOrEqual, OpLessThan, OpLessThanOrEqual, OpRange}

var vNegate bool

func H_C04_int_not() { vNegate = true; H_C04_int() }

// integer field: symbolic values and operands over all of int64 (negative, zero, large)
func H_C04_int() {
	docs := []*vDoc{{id: 5, hasI: true, i: vI64("i0")}, {id: 3, hasI: true, i: vI64("i1")}, {id: 9, hasS: true, s: "a"}}
	idx := vMetaIndex(docs)
	f := Filter{Field: "i", Operator: vNumOps[vChoose("op", len(vNumOps))], Value: vI64("c")}
	if f.Operator == OpRange {
		f.Value2 = vI64("c2")
	}
	vTag("op=" + string(f.Operator))
	if vNegate {
		// Not(.) maps each of the six invertible numeric operators to its complement within "has the field"
		g := Not(f)
		want := map[Operator]Operator{OpEqual: OpNotEqual, OpNotEqual: OpEqual, OpGreaterThan: OpLessThanOrEqual, OpGreaterThanOrEqual: OpLessThan, OpLessThan: OpGreaterThanOrEqual, OpLessThanOrEqual: OpGreaterThan, OpRange: OpRange}
		vAssert(g.Operator == want[f.Operator] && g.Field == f.Field, "not-maps-to-complement-operator")
		if f.Operator == OpRange {
			return
		}
		f = g
		vTag("negated")
	}
	st0 := vMetaState(idx)
	res, err := idx.NewSearch().WithFilters(f).Execute()
	vAssert(err == nil, "search-ok")
	vAssert(vSameIDs(st0, vMetaState(idx)), "search-leaves-index-state-unchanged")
	vCheckIDs(res, docs, func(d *vDoc) bool { r, _ := vEval(d, f); return r }, "int")
	// searches are read-only
	g := Exists("i")
	res2, err2 := idx.NewSearch().WithFilters(g).Execute()
	vAssert(err2 == nil, "followup-ok")
	vCheckIDs(res2, docs, func(d *vDoc) bool { r, _ := vEval(d, g); return r }, "followup-after-search")
	vCover("ran")
}

// float field: compared at two-decimal fixed point
func H_C04_float() {
	docs := []*vDoc{{id: 5, hasF: true, f: vF64("f0")}, {id: 3, hasF: true, f: vF64("f1")}, {id: 9, hasB: true, b: true}}
	for _, d := range docs[:2] {
		vAssume(vAnd(d.f > -1e15, d.f < 1e15)) // so that int64(v*100) is defined
	}
	idx := vMetaIndex(docs)
	c := vF64("c")
	vAssume(vAnd(c > -1e15, c < 1e15))
	f := Filter{Field: "f", Operator: vNumOps[vChoose("op", len(vNumOps))], Value: c}
	if f.Operator == OpRange {
		c2 := vF64("c2")
		vAssume(vAnd(c2 > -1e15, c2 < 1e15))
		f.Value2 = c2
	}
	vTag("op=" + string(f.Operator))
	res, err := idx.NewSearch().WithFilters(f).Execute()
	vAssert(err == nil, "search-ok")
	vCheckIDs(res, docs, func(d *vDoc) bool { r, _ := vEval(d, f); return r }, "float")
	vCover("ran")
}

var vStrMenu = []string{"", "a", "b", "a:b"}

// string / bool fields: eq, ne, in, not_in, exists, not_exists (+ Not), operands absent from the data, fields absent from the index
func H_C04_cat() {
	docs := []*vDoc{{id: 5}, {id: 3}, {id: 9}}
	for n, d := range docs[:2] {
		if sv := vChoose(vName("s", n), len(vStrMenu)+1); sv < len(vStrMenu) {
			d.hasS, d.s = true, vStrMenu[sv]
		}
	}
	docs[2].hasS, docs[2].s = true, "a:b"
	if bv := vChoose("b0", 3); bv < 2 {
		docs[0].hasB, docs[0].b = true, bv == 1
	}
	docs[2].hasB, docs[2].b = true, true
	idx := vMetaIndex(docs)
	field := []string{"s", "b", "nofield"}[vChoose("field", 3)]
	var operand interface{} = []string{"a", "", "a:b", "zz"}[vChoose("operand", 4)]
	if field == "b" {
		operand = vChoose("operand_b", 2) == 1
	}
	var f Filter
	switch vChoose("op", 6) {
	case 0:
		f = Eq(field, operand)
	case 1:
		f = Ne(field, operand)
	case 2:
		if vChoose("in_single", 2) == 1 {
			f = In(field, operand)
		} else {
			f = In(field, operand, "b")
		}
	case 3:
		f = NotIn(field, operand, "b")
	case 4:
		f = Exists(field)
	case 5:
		f = NotExists(field)
	}
	vTag("op=" + string(f.Operator))
	if vChoose("negate", 2) == 1 {
		f = Not(f)
	}
	st0 := vMetaState(idx)
	res, err := idx.NewSearch().WithFilters(f).Execute()
	vAssert(err == nil, "search-ok")
	vAssert(vSameIDs(st0, vMetaState(idx)), "search-leaves-index-state-unchanged")
	vCheckIDs(res, docs, func(d *vDoc) bool { r, _ := vEval(d, f); return r }, "cat")
	// read-only: ask again, and ask for plain membership of the operand value
	res2, err2 := idx.NewSearch().WithFilters(f).Execute()
	vAssert(err2 == nil && len(res2) == len(res), "same-answer-twice")
	g := Eq("s", "a")
	res3, err3 := idx.NewSearch().WithFilters(g).Execute()
	vAssert(err3 == nil, "followup-ok")
	vCheckIDs(res3, docs, func(d *vDoc) bool { r, _ := vEval(d, g); return r }, "followup-after-search")
	vCover("ran")
}

// filter trees: AND inside a group, OR across groups; simple AND lists; the builder
func H_C04_groups() {
	docs := []*vDoc{
		{id: 5, hasS: true, s: "a", hasI: true, i: vI64("i0"), hasB: true, b: true},
		{id: 3, hasS: true, s: "b", hasI: true, i: vI64("i1")},
		{id: 9, hasS: true, s: "a", hasB: true, b: false},
	}
	idx := vMetaIndex(docs)
	c := vI64("c")
	menu := []Filter{In("s", "a"), Gte("i", c), Ne("b", true), Exists("i"), Lt("i", c), NotIn("s", "b", "zz"), Ne("i", c), NotExists("b")}
	st0 := vMetaState(idx)
	pick := func(nm string) Filter { return menu[vChoose(nm, len(menu))] }
	g1 := []Filter{pick("g1a")}
	if vChoose("g1_two", 2) == 1 {
		g1 = append(g1, menu[vChoose("g1b", 3)])
	}
	evalAnd := func(d *vDoc, fs []Filter) bool {
		r := true
		for _, f := range fs {
			x, _ := vEval(d, f)
			r = vAnd(r, x)
		}
		return r
	}
	switch vChoose("shape", 3) {
	case 0: // simple AND list
		res, err := idx.NewSearch().WithFilters(g1...).Execute()
		vAssert(err == nil, "search-ok")
		vCheckIDs(res, docs, func(d *vDoc) bool { return evalAnd(d, g1) }, "and-list")
	case 1: // two groups, OR across
		g2 := []Filter{menu[3+vChoose("g2a", 3)], menu[1+vChoose("g2b", 2)]}
		res, err := idx.NewSearch().WithFilterGroups(&FilterGroup{Filters: g1, Logic: AND}, &FilterGroup{Filters: g2, Logic: AND}).Execute()
		vAssert(err == nil, "search-ok")
		vCheckIDs(res, docs, func(d *vDoc) bool { return vOr(evalAnd(d, g1), evalAnd(d, g2)) }, "groups")
	case 2: // the builder: Where(...).Or(...)
		g2 := []Filter{menu[2+vChoose("g2a", 3)]}
		res, err := NewMetadataFilterQuery().Where(g1...).Or(g2...).Execute(idx)
		vAssert(err == nil, "search-ok")
		vCheckIDs(res, docs, func(d *vDoc) bool { return vOr(evalAnd(d, g1), evalAnd(d, g2)) }, "builder")
	}
	vAssert(vSameIDs(st0, vMetaState(idx)), "search-leaves-index-state-unchanged")
	// searches are read-only: the same index still answers a follow-up battery correctly
	for _, f := range []Filter{Eq("s", "a"), Exists("i"), Ne("b", true)} {
		f := f
		res, err := idx.NewSearch().WithFilters(f).Execute()
		vAssert(err == nil, "followup-ok")
		vCheckIDs(res, docs, func(d *vDoc) bool { r, _ := vEval(d, f); return r }, "followup-after-search")
	}
	vCover("ran")
}

// histories: a removed document is never returned; an empty filter list returns all live documents
func H_C04_history() {
	docs := []*vDoc{
		{id: 5, hasS: true, s: "a", hasI: true, i: vI64("i0")},
		{id: 3, hasS: true, s: "a", hasI: true, i: vI64("i1"), hasB: true, b: true},
		{id: 9, hasS: true, s: "", hasF: true, f: 2.5},
	}
	idx := vMetaIndex(docs)
	// the same queries are also asked BEFORE the history (an index may remember what it answered)
	for _, f := range []Filter{Exists("s"), Exists("b"), Exists("i"), NotExists("f"), Eq("s", "a"), Ne("s", "zz")} {
		f := f
		r0, e0 := idx.NewSearch().WithFilters(f).Execute()
		vAssert(e0 == nil, "search-ok")
		vCheckIDs(r0, docs, func(d *vDoc) bool { x, _ := vEval(d, f); return x }, "before-history")
	}
	nops := vChoose("nops", 3)
	for o := 0; o < nops; o++ {
		t := vChoose(vName("target", o), 4)
		if t == 3 {
			vAssert(idx.Remove(*NewMetadataNodeWithID(77, nil)) == nil, "remove-unknown-ok")
			continue
		}
		if docs[t].live {
			vAssert(idx.Remove(*NewMetadataNodeWithID(docs[t].id, nil)) == nil, "remove-ok")
			docs[t].live = false
		} else {
			// re-add with the same content (update)
			vAssert(idx.Add(*NewMetadataNodeWithID(docs[t].id, docs[t].meta())) == nil, "re-add-ok")
			docs[t].live = true
		}
	}
	c := vI64("c")
	var fs []Filter
	switch vChoose("filter", 8) {
	case 6:
		fs = []Filter{Exists("b")}
	case 7:
		fs = []Filter{Exists("i"), Exists("s")}
	case 1:
		fs = []Filter{Eq("s", "a")}
	case 2:
		fs = []Filter{Lte("i", c)}
	case 3:
		fs = []Filter{Ne("s", "zz")}
	case 4:
		fs = []Filter{NotExists("i")}
	case 5:
		fs = []Filter{Exists("s")}
	}
	res, err := idx.NewSearch().WithFilters(fs...).Execute()
	vAssert(err == nil, "search-ok")
	vCheckIDs(res, docs, func(d *vDoc) bool {
		r := true
		for _, f := range fs {
			x, _ := vEval(d, f)
			r = vAnd(r, x)
		}
		return r
	}, "history")
	vCover("ran")
}

// vMetaState: the whole logical state of a metadata index, read in-package
// (live set, every posting list, every numeric field's columns) — searches must leave it unchanged
func vMetaState(idx *RoaringMetadataIndex) []uint32 {
	var out []uint32
	out = append(out, 1000000)
	out = append(out, idx.allDocs.ToArray()...)
	keys := make([]string, 0, len(idx.categorical))
	for k := range idx.categorical {
		keys = append(keys, k)
	}
	for i := 1; i < len(keys); i++ {
		for j := i; j > 0 && keys[j] < keys[j-1]; j-- {
			keys[j], keys[j-1] = keys[j-1], keys[j]
		}
	}
	for _, k := range keys {
		out = append(out, 2000000+uint32(len(k)))
		out = append(out, idx.categorical[k].ToArray()...)
	}
	fields := make([]string, 0, len(idx.numeric))
	for f := range idx.numeric {
		fields = append(fields, f)
	}
	for i := 1; i < len(fields); i++ {
		for j := i; j > 0 && fields[j] < fields[j-1]; j-- {
			fields[j], fields[j-1] = fields[j-1], fields[j]
		}
	}
	for _, f := range fields {
		out = append(out, 3000000+uint32(len(f)))
		out = append(out, idx.numeric[f].GetExistenceBitmap().ToArray()...)
	}
	return out
}

func init() { vHarnesses["H_C04_orgroup"] = H_C04_orgroup }

// a group with OR inside (any term suffices — also when an earlier term matches nothing), optionally
// OR-ed with a second AND group
func H_C04_orgroup() {
	docs := []*vDoc{
		{id: 5, hasS: true, s: "a", hasI: true, i: vI64("i0"), hasB: true, b: true},
		{id: 3, hasS: true, s: "b", hasI: true, i: vI64("i1")},
		{id: 9, hasS: true, s: "a", hasB: true, b: false},
	}
	idx := vMetaIndex(docs)
	c := vI64("c")
	st0 := vMetaState(idx)
	orMenu := []Filter{Eq("s", "zz"), In("s", "a"), Gte("i", c), NotExists("b")}
	gOr := []Filter{orMenu[vChoose("or_a", len(orMenu))], orMenu[vChoose("or_b", len(orMenu))]}
	if vChoose("or_three", 2) == 1 {
		gOr = append(gOr, orMenu[1+vChoose("or_c", 2)])
	}
	var g2 []Filter
	switch vChoose("second_group", 3) {
	case 1:
		g2 = []Filter{Exists("i")}
	case 2:
		g2 = []Filter{In("s", "a"), Ne("b", true)}
	}
	groups := []*FilterGroup{{Filters: gOr, Logic: OR}}
	if g2 != nil {
		groups = append(groups, &FilterGroup{Filters: g2, Logic: AND})
	}
	res, err := idx.NewSearch().WithFilterGroups(groups...).Execute()
	vAssert(err == nil, "search-ok")
	vCheckIDs(res, docs, func(d *vDoc) bool {
		r := false
		for _, f := range gOr {
			x, _ := vEval(d, f)
			r = vOr(r, x)
		}
		if g2 != nil {
			a := true
			for _, f := range g2 {
				x, _ := vEval(d, f)
				a = vAnd(a, x)
			}
			r = vOr(r, a)
		}
		return r
	}, "or-group")
	vAssert(vSameIDs(st0, vMetaState(idx)), "search-leaves-index-state-unchanged")
	vCover("ran")
}

func init() { vHarnesses["H_C04_ctors"] = H_C04_ctors }

// every exported filter constructor and alias, and the query builder's Where / And / Or / Build, judged by what the
// constructor's NAME promises (the oracle never looks at the Filter struct the constructor produced)
func H_C04_ctors() {
	docs := []*vDoc{
		{id: 5, hasS: true, s: "a", hasI: true, i: vI64("i0"), hasB: true, b: true},
		{id: 3, hasS: true, s: "b", hasI: true, i: vI64("i1")},
		{id: 9, hasS: true, s: "a", hasB: true, b: false},
	}
	idx := vMetaIndex(docs)
	c, c2 := vI64("c"), vI64("c2")
	type ctor struct {
		name string
		f    Filter
		sem  func(d *vDoc) bool
	}
	sIs := func(vals ...string) func(d *vDoc) bool {
		return func(d *vDoc) bool {
			for _, v := range vals {
				if d.hasS && d.s == v {
					return true
				}
			}
			return false
		}
	}
	neg := func(p func(d *vDoc) bool) func(d *vDoc) bool { return func(d *vDoc) bool { return !p(d) } }
	num := func(p func(v int64) bool) func(d *vDoc) bool {
		return func(d *vDoc) bool {
			if !d.hasI {
				return false
			}
			return p(d.i)
		}
	}
	menu := []ctor{
		{"Eq", Eq("i", c), num(func(v int64) bool { return v == c })},
		{"Ne", Ne("i", c), num(func(v int64) bool { return v != c })},
		{"Gt", Gt("i", c), num(func(v int64) bool { return v > c })},
		{"Gte", Gte("i", c), num(func(v int64) bool { return v >= c })},
		{"Lt", Lt("i", c), num(func(v int64) bool { return v < c })},
		{"Lte", Lte("i", c), num(func(v int64) bool { return v <= c })},
		{"Range", Range("i", c, c2), num(func(v int64) bool { return vAnd(v >= c, v <= c2) })},
		{"Between", Between("i", c, c2), num(func(v int64) bool { return vAnd(v >= c, v <= c2) })},
		{"In", In("s", "a", "zz"), sIs("a", "zz")},
		{"AnyOf", AnyOf("s", "b", "zz"), sIs("b", "zz")},
		{"NotIn", NotIn("s", "a"), neg(sIs("a"))},
		{"NoneOf", NoneOf("s", "b", "zz"), neg(sIs("b", "zz"))},
		{"Exists", Exists("b"), func(d *vDoc) bool { return d.hasB }},
		{"IsNotNull", IsNotNull("b"), func(d *vDoc) bool { return d.hasB }},
		{"NotExists", NotExists("b"), func(d *vDoc) bool { return !d.hasB }},
		{"IsNull", IsNull("b"), func(d *vDoc) bool { return !d.hasB }},
		{"EqBool", Eq("b", false), func(d *vDoc) bool { return d.hasB && !d.b }},
		{"NeStr", Ne("s", "a"), neg(sIs("a"))},
	}
	switch vChoose("shape", 3) {
	case 0: // one constructor on its own
		m := menu[vChoose("ctor", len(menu))]
		vTag("ctor=" + m.name)
		res, err := idx.NewSearch().WithFilters(m.f).Execute()
		vAssert(err == nil, "search-ok")
		vCheckIDs(res, docs, m.sem, "constructor")
	case 1: // Where(A).And(B).Or(C).And(D).Build()  =  (A and B) or (C and D)
		a, b := menu[[]int{3, 6, 8}[vChoose("a", 3)]], menu[[]int{4, 12}[vChoose("b", 2)]]
		cc, d := menu[[]int{9, 11}[vChoose("c", 2)]], menu[[]int{15, 16}[vChoose("d", 2)]]
		groups := NewMetadataFilterQuery().Where(a.f).And(b.f).Or(cc.f).And(d.f).Build()
		vAssert(len(groups) == 2, "builder-two-groups")
		res, err := idx.NewSearch().WithFilterGroups(groups...).Execute()
		vAssert(err == nil, "search-ok")
		vCheckIDs(res, docs, func(x *vDoc) bool { return vOr(vAnd(a.sem(x), b.sem(x)), vAnd(cc.sem(x), d.sem(x))) }, "builder-where-and-or-and")
	case 2: // And on an empty builder starts the first group; Where / Or with no filters add nothing
		a, b := menu[[]int{1, 7, 10}[vChoose("a", 3)]], menu[[]int{5, 13, 17}[vChoose("b", 3)]]
		qb := NewMetadataFilterQuery().Where().And(a.f).Or().Or(b.f)
		vAssert(len(qb.Build()) == 2, "builder-two-groups")
		res, err := qb.Execute(idx)
		vAssert(err == nil, "search-ok")
		vCheckIDs(res, docs, func(x *vDoc) bool { return vOr(a.sem(x), b.sem(x)) }, "builder-and-first")
	}
	vCover("ran")
}
