//go:build verif

package comet

// C08 — an acknowledged write to the persistent store stays visible to later searches.
// Background work is sequentialised at operation granularity: between two public
// operations a forked choice lets the pending background signals be served (vYield).

func init() {
	vHarnesses["H_C08_history"] = H_C08_history
	vHarnesses["H_C08_merge"] = H_C08_merge
}

// every search: each acknowledged, not-removed document is returned; no id that was never
// added; the id set equals that of one in-memory hybrid index holding the same live documents
// a search object built once per store (right after Open) and executed again at every check: Execute must
// not carry state from one call into the next
var vC08Prepared HybridSearch

// vC08Meta: vStoreSearchCheck also runs metadata-only queries (set by the harnesses that can afford them)
var vC08Meta bool

func vStoreSearchCheck(s *PersistentHybridIndex, live []vStoreDoc, everAdded map[uint32]bool, ref HybridSearchIndex, label string) {
	if vC08Prepared != nil {
		rp, ep := vC08Prepared.Execute()
		vAssert(ep == nil, label+"-search-ok")
		pids := vIDsOfHybrid(rp)
		for _, d := range live {
			vAssert(vContains(pids, d.id), label+"-acknowledged-document-visible-to-a-reused-search-object")
		}
	}
	// the query sits exactly on document 12 (distance 0 when it is live)
	r, e := s.NewSearch().WithVector([]float32{5}).WithK(10).Execute()
	vAssert(e == nil, label+"-search-ok")
	ids := vIDsOfHybrid(r)
	for _, id := range ids {
		vAssert(everAdded[id], label+"-no-never-added-document")
	}
	for i, id := range ids {
		for j := 0; j < i; j++ {
			vAssert(ids[j] != id, label+"-each-id-once")
		}
	}
	for _, d := range live {
		vAssert(vContains(ids, d.id), label+"-acknowledged-document-visible")
	}
	rr, e2 := ref.NewSearch().WithVector([]float32{5}).WithK(10).Execute()
	vAssert(e2 == nil, "reference-search-ok")
	vAssert(len(rr) == len(ids), label+"-same-id-set-as-in-memory-index")
	for _, x := range rr {
		vAssert(vContains(ids, x.ID), label+"-same-id-set-as-in-memory-index")
	}
	// the same with a distance threshold (l2_squared 10 around 5: only the document at 5 is inside, those at 1, 9, 13 are not)
	rt2, e4 := s.NewSearch().WithVector([]float32{5}).WithK(10).WithThreshold(10).Execute()
	vAssert(e4 == nil, label+"-search-ok")
	rr2, e5 := ref.NewSearch().WithVector([]float32{5}).WithK(10).WithThreshold(10).Execute()
	vAssert(e5 == nil, "reference-search-ok")
	ids2 := vIDsOfHybrid(rt2)
	vAssert(len(rr2) == len(ids2), label+"-same-id-set-as-in-memory-index-under-threshold")
	for _, x := range rr2 {
		vAssert(vContains(ids2, x.ID), label+"-same-id-set-as-in-memory-index-under-threshold")
	}
	if vC08Meta && s.config.MetadataIndexTemplate != nil {
		// metadata-only queries (a filter list, filter groups): every live document carries "c"; nothing that was never
		// added — e.g. the document of a refused Add — may show up
		rm, e6 := s.NewSearch().WithMetadata(Exists("c")).WithK(10).Execute()
		rg, e7 := s.NewSearch().WithMetadataGroups(&FilterGroup{Filters: []Filter{Eq("c", "x")}, Logic: AND}, &FilterGroup{Filters: []Filter{Ne("c", "x")}, Logic: AND}).WithK(10).Execute()
		vAssert(e6 == nil && e7 == nil, label+"-search-ok")
		for _, got := range [][]uint32{vIDsOfHybrid(rm), vIDsOfHybrid(rg)} {
			for _, id := range got {
				vAssert(everAdded[id], label+"-no-never-added-document-by-metadata")
			}
			for _, d := range live {
				vAssert(vContains(got, d.id), label+"-acknowledged-document-visible-by-metadata")
			}
		}
	}
	if vC08Meta && s.config.TextIndexTemplate != nil {
		// the same visibility with every search option set (they are handed to each memtable / segment search):
		// fused vector + text queries match every live document through its vector
		wf, _ := NewFusion(WeightedSumFusion, &FusionConfig{VectorWeight: 0.5, TextWeight: 2, K: 60})
		for oi, hs := range []HybridSearch{
			s.NewSearch().WithVector([]float32{5}).WithText("fox").WithFusionKind(ReciprocalRankFusion).WithScoreAggregation(MaxAggregation).WithCutoff(-1).WithEfSearch(8).WithNProbes(2).WithK(10),
			s.NewSearch().WithVector([]float32{5}).WithText("fox", "dog").WithFusion(wf).WithScoreAggregation(MeanAggregation).WithK(10),
			s.NewSearch().WithVector([]float32{5}).WithMetadataGroups(&FilterGroup{Filters: []Filter{Exists("c")}, Logic: AND}).WithFusionKind(MaxFusion).WithK(10),
		} {
			ro, eo := hs.Execute()
			vAssert(eo == nil, label+"-search-ok")
			got := vIDsOfHybrid(ro)
			for _, id := range got {
				vAssert(everAdded[id], label+"-no-never-added-document-with-options")
			}
			for _, d := range live {
				vAssert(vContains(got, d.id), label+"-acknowledged-document-visible-with-options-"+string(rune('a'+oi)))
			}
		}
	}
	if s.config.TextIndexTemplate != nil {
		rt, e3 := s.NewSearch().WithText("fox").WithK(10).Execute()
		vAssert(e3 == nil, label+"-search-ok")
		for _, d := range live {
			if d.text == "tick fox" || d.text == "cat fox" {
				vAssert(vContains(vIDsOfHybrid(rt), d.id), label+"-acknowledged-document-visible-by-text")
			}
		}
	}
}

func H_C08_history() {
	vStoreTemplates = []int{3, 0}[vChoose("templates", 2)]
	dir := vTempDir()
	cfg := vFreshStoreCfg(dir, vChoose("tiny_memtables", 2) == 1)
	cfg.CompactionThreshold = 2
	s, err := OpenPersistentHybridIndex(cfg)
	vAssert(err == nil, "open-ok")
	vC08Prepared = s.NewSearch().WithVector([]float32{5}).WithK(10)
	flat, _ := NewFlatIndex(1, L2Squared)
	ref := NewHybridSearchIndex(flat, nil, nil)
	var live []vStoreDoc
	ever := map[uint32]bool{}
	next := 0
	// exposure of the known shared-template defect (see DESIGN.md / known findings): a segment is
	// (re)loaded into the shared template instances after later adds, or two segments are loaded
	addsSinceFlush := 0
	exposed := false
	var inMutable []vStoreDoc
	// read in-package: number of segments and how many of them are not cached
	segState := func() (segs, uncached int) {
		for _, sg := range s.segmentManager.list() {
			segs++
			if sg.cachedIndex == nil {
				uncached++
			}
		}
		return
	}
	expectedCached := 0 // segments a correct store has cached by now (every search caches all of them)
	willExpose := func() bool {
		segs, _ := segState()
		return segs-expectedCached > 0 && (addsSinceFlush > 0 || segs >= 2)
	}
	L := 3 + vChoose("len", 2)
	for step := 0; step < L; step++ {
		switch vChoose(vName("op", step), 8) {
		case 7: // Remove of a document that has left the writable memtable (frozen or flushed): whatever the store
			// answers, it has to stand by it — refused: the document stays visible; acknowledged: it stays gone
			var tgt *vStoreDoc
			for i := range live {
				inM := false
				for _, m := range inMutable {
					if m.id == live[i].id {
						inM = true
					}
				}
				if !inM {
					tgt = &live[i]
					break
				}
			}
			if tgt == nil {
				continue
			}
			id := tgt.id
			if s.Remove(id) == nil {
				vAssert(ref.Remove(id) == nil, "reference-remove-ok")
				for i := range live {
					if live[i].id == id {
						live = append(live[:i:i], live[i+1:]...)
						break
					}
				}
				vTag("remove-of-flushed-document-acknowledged")
			}
		case 6: // Remove a document that still sits in the writable memtable
			if len(inMutable) == 0 {
				continue
			}
			d := inMutable[len(inMutable)-1]
			inMutable = inMutable[:len(inMutable)-1]
			vAssert(s.Remove(d.id) == nil, "remove-ok")
			vAssert(ref.Remove(d.id) == nil, "reference-remove-ok")
			for i := range live {
				if live[i].id == d.id {
					live = append(live[:i:i], live[i+1:]...)
					break
				}
			}
		case 0: // Add
			if next >= len(vStoreDocs) {
				continue
			}
			d := vStoreDocs[next]
			next++
			vAssert(s.AddWithID(d.id, []float32{d.vec}, d.text, map[string]interface{}{"c": d.c}) == nil, "add-ok")
			vAssert(ref.AddWithID(d.id, []float32{d.vec}, "", nil) == nil, "reference-add-ok")
			live = append(live, d)
			ever[d.id] = true
			addsSinceFlush++
			if cfg.MemtableSizeLimit == 1 {
				inMutable = nil // every add rotates first
			}
			inMutable = append(inMutable, d)
		case 1: // Flush
			vAssert(s.Flush() == nil, "flush-ok")
			addsSinceFlush = 0
			inMutable = nil
		case 2: // forced rotation
			s.memtableQueue.Rotate()
			inMutable = nil
		case 3: // search (twice: the second is served from cached segments)
			if willExpose() {
				exposed = true
			}
			if exposed {
				vTag("shared-templates-exposed")
			}
			vStoreSearchCheck(s, live, ever, ref, "search")
			expectedCached, _ = segState()
			vStoreSearchCheck(s, live, ever, ref, "search-again")
			vCover("searched")
		case 4: // evict caches
			s.segmentManager.EvictAllCaches()
			expectedCached = 0
		case 5: // compaction trigger, served by the background worker before the next operation (or not yet)
			s.TriggerCompaction()
			if vChoose(vName("served", step), 2) == 1 {
				if sg, _ := segState(); sg >= 2 {
					exposed = true // compaction loads the segments into the shared instances and does not merge
				}
				vYield()
			}
		}
	}
	if willExpose() {
		exposed = true
	}
	if exposed {
		vTag("shared-templates-exposed")
	}
	vStoreSearchCheck(s, live, ever, ref, "final-search")
	vStoreSearchCheck(s, live, ever, ref, "final-search-again")
	vAssert(s.Close() == nil, "close-ok")
}

// result merging / truncation: documents reachable through several sources (memtables after
// rotations, memtable + segment) each appear once and k is applied after de-duplication
func H_C08_merge() {
	vStoreTemplates = 3
	dir := vTempDir()
	s, err := OpenPersistentHybridIndex(vFreshStoreCfg(dir, false))
	vAssert(err == nil, "open-ok")
	n := 2 + vChoose("n", 2)
	for i := 0; i < n; i++ {
		d := vStoreDocs[i]
		vAssert(s.AddWithID(d.id, []float32{d.vec}, "", nil) == nil, "add-ok")
		if vChoose(vName("rotate_after", i), 2) == 1 {
			s.memtableQueue.Rotate()
		}
	}
	if vChoose("flush", 2) == 1 {
		vAssert(s.Flush() == nil, "flush-ok")
	}
	k := 1 + vChoose("k", 4)
	r, e := s.NewSearch().WithVector([]float32{2}).WithK(k).Execute()
	vAssert(e == nil, "search-ok")
	want := n
	if k < n {
		want = k
	}
	ids := vIDsOfHybrid(r)
	vAssert(len(ids) == want, "k-applies-after-deduplication")
	for i, id := range ids {
		for j := 0; j < i; j++ {
			vAssert(ids[j] != id, "each-id-once")
		}
	}
	for i := 1; i < len(r); i++ {
		vAssert(!(r[i].Score > r[i-1].Score), "descending-score")
	}
	vAssert(s.Close() == nil, "close-ok")
	vCover("ran")
}

func init() { vHarnesses["H_C08_after_flush"] = H_C08_after_flush }

// the everyday shape: some documents (one possibly removed again), [rotation,] Flush, search,
// then a later Add and three more searches — no exposure of the shared-template defect here:
// the single segment is cached by the first search
func H_C08_after_flush() {
	vStoreTemplates = []int{3, 0}[vChoose("templates", 2)]
	dir := vTempDir()
	s, err := OpenPersistentHybridIndex(vFreshStoreCfg(dir, false))
	vAssert(err == nil, "open-ok")
	vC08Prepared = s.NewSearch().WithVector([]float32{5}).WithK(10)
	flat, _ := NewFlatIndex(1, L2Squared)
	ref := NewHybridSearchIndex(flat, nil, nil)
	var live []vStoreDoc
	ever := map[uint32]bool{}
	add := func(d vStoreDoc) {
		vAssert(s.AddWithID(d.id, []float32{d.vec}, d.text, map[string]interface{}{"c": d.c}) == nil, "add-ok")
		vAssert(ref.AddWithID(d.id, []float32{d.vec}, "", nil) == nil, "reference-add-ok")
		live = append(live, d)
		ever[d.id] = true
	}
	vC08Meta = true
	defer func() { vC08Meta = false }()
	add(vStoreDocs[0])
	add(vStoreDocs[1])
	switch vChoose("refused_add", 3) { // an Add the store refuses (valid text and metadata, wrong vector dimension) leaves nothing behind
	case 1:
		vAssert(s.AddWithID(77, []float32{1, 2}, "fox", map[string]interface{}{"c": "x"}) != nil, "add-with-wrong-dimension-refused")
	case 2:
		_, aerr := s.Add([]float32{1, 2}, "fox", map[string]interface{}{"c": "x"})
		vAssert(aerr != nil, "add-with-wrong-dimension-refused")
	}
	switch vChoose("before_flush", 3) {
	case 1: // remove the second document again
		vAssert(s.Remove(vStoreDocs[1].id) == nil && ref.Remove(vStoreDocs[1].id) == nil, "remove-ok")
		live = live[:1]
	case 2: // update = remove + add of the same id
		vAssert(s.Remove(vStoreDocs[1].id) == nil && ref.Remove(vStoreDocs[1].id) == nil, "remove-ok")
		live = live[:1]
		add(vStoreDocs[1])
	}
	if vChoose("rotate", 2) == 1 {
		s.memtableQueue.Rotate()
	}
	vAssert(s.Flush() == nil, "flush-ok")
	if vChoose("first_search_small_k", 2) == 1 {
		// the first search after the flush asks for one hit only
		r1, e1 := s.NewSearch().WithVector([]float32{1}).WithK(1).Execute()
		vAssert(e1 == nil && len(r1) == 1 && r1[0].ID == vStoreDocs[0].id, "k-1-search-returns-the-nearest-document")
	} else {
		vStoreSearchCheck(s, live, ever, ref, "after-flush")
	}
	if vChoose("later_add_with_automatic_id", 2) == 1 {
		d := vStoreDocs[2]
		nodeIDCounter = 2000 // (a native replay process has handed out ids before: keep clear of the explicit ones)
		id, aerr := s.Add([]float32{d.vec}, d.text, map[string]interface{}{"c": d.c})
		vAssert(aerr == nil, "add-ok")
		vAssert(!ever[id] && id != 0, "automatic-id-is-new")
		d.id = id
		vAssert(ref.AddWithID(d.id, []float32{d.vec}, "", nil) == nil, "reference-add-ok")
		live = append(live, d)
		ever[d.id] = true
	} else {
		add(vStoreDocs[2])
	}
	for i := 0; i < 3; i++ {
		vStoreSearchCheck(s, live, ever, ref, "after-later-add")
	}
	vAssert(s.Close() == nil, "close-ok")
	vCover("ran")
}

func init() { vHarnesses["H_C08_compact"] = H_C08_compact }

// compaction of 2..3 single-document segments written in one session: each segment searched right after
// its flush or never loaded, caches evicted or not, threshold = number of segments; the compaction is
// served by the background worker; every document stays visible afterwards
func H_C08_compact() {
	vStoreTemplates = []int{3, 0}[vChoose("templates", 2)]
	dir := vTempDir()
	cfg := vFreshStoreCfg(dir, false)
	nb := 2 + vChoose("segments", 2)
	cfg.CompactionThreshold = nb
	s, err := OpenPersistentHybridIndex(cfg)
	vAssert(err == nil, "open-ok")
	vC08Prepared = s.NewSearch().WithVector([]float32{5}).WithK(10)
	flat, _ := NewFlatIndex(1, L2Squared)
	ref := NewHybridSearchIndex(flat, nil, nil)
	var live []vStoreDoc
	ever := map[uint32]bool{}
	searchBetween := vChoose("search_between", 2) == 1
	for b := 0; b < nb; b++ {
		d := vStoreDocs[b]
		vAssert(s.AddWithID(d.id, []float32{d.vec}, d.text, map[string]interface{}{"c": d.c}) == nil, "add-ok")
		vAssert(ref.AddWithID(d.id, []float32{d.vec}, "", nil) == nil, "reference-add-ok")
		live = append(live, d)
		ever[d.id] = true
		vAssert(s.Flush() == nil, "flush-ok")
		if searchBetween {
			vStoreSearchCheck(s, live, ever, ref, "between")
		}
	}
	if searchBetween {
		vTag("searched-between")
	}
	if vChoose("evict", 2) == 1 {
		s.segmentManager.EvictAllCaches()
		vTag("evicted")
	}
	s.TriggerCompaction()
	vYield()
	if s.segmentManager.Count() == 1 {
		vCover("compacted")
	}
	vStoreSearchCheck(s, live, ever, ref, "after-compaction")
	vStoreSearchCheck(s, live, ever, ref, "after-compaction-again")
	vAssert(s.Close() == nil, "close-ok")
}
