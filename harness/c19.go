//go:build verif

package comet

// C19 — result post-processing laws (aggregate, limit, autocut, fuse, merge).

func init() {
	vHarnesses["H_C19_limit"] = H_C19_limit
	vHarnesses["H_C19_autocut"] = H_C19_autocut
}

func vTextResults(n int, pfx string) []TextResult {
	rs := make([]TextResult, n)
	for i := range rs {
		rs[i] = TextResult{Id: uint32(i + 1), Score: vF32(vName(pfx+"s", i))}
	}
	return rs
}

// LimitResults returns xs[:k] for 0 < k <= len, xs otherwise; the result is a
// prefix sharing the input's backing array.  k ranges over all of int.
func H_C19_limit() {
	n := vChoose("n", 6)
	rs := vTextResults(n, "r")
	k := vInt("k")
	out := LimitResults(rs, k)
	want := n
	if k > 0 && k <= n {
		want = k
		vCover("k-inside")
	} else {
		vCover("k-outside")
	}
	vAssert(len(out) == want, "limit-len")
	for i := range out {
		vAssert(&out[i] == &rs[i], "limit-prefix-same-backing")
	}
	vAssert(sanitizeK(k, n) == want, "sanitizeK")
}

// Autocut: result in [0, len], no panic for any float32 scores (NaN, Inf,
// equal) and any cutoff; AutocutResults returns a prefix, the whole input
// when cutoff == -1.
func H_C19_autocut() {
	n := vChoose("n", 6)
	rs := vTextResults(n, "r")
	cutoff := vInt("cutoff")
	scores := make([]float32, n)
	for i := range rs {
		scores[i] = rs[i].Score
	}
	c := Autocut(scores, cutoff)
	vAssert(c >= 0 && c <= n, "autocut-range")
	out := AutocutResults(rs, cutoff)
	vAssert(len(out) <= n, "autocutresults-len")
	for i := range out {
		vAssert(&out[i] == &rs[i], "autocutresults-prefix")
	}
	if cutoff == -1 {
		vAssert(len(out) == n, "autocut-disabled-is-identity")
		vCover("disabled")
	} else if n > 0 {
		vAssert(len(out) == c, "autocutresults-equals-autocut")
		vCover("enabled")
	}
}
