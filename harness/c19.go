//go:build verif

package comet

// C19 — result post-processing laws (aggregate, limit, autocut, fuse, merge).

func init() {
	vHarnesses["H_C19_limit"] = H_C19_limit
	vHarnesses["H_C19_autocut"] = H_C19_autocut
}

func vTextResults(n int, pfx string) []TextResult {
	rs := make([]TextResult, n)
	for i := range rs {
		rs[i] = TextResult{Id: uint32(i + 1), Score: vF32(vName(pfx+"s", i))}
	}
	return rs
}

// LimitResults returns xs[:k] for 0 < k <= len, xs otherwise; the result is a
// prefix sharing the input's backing array.  k ranges over all of int.
func H_C19_limit() {
	n := vChoose("n", 6)
	rs := vTextResults(n, "r")
	if spare := vChoose("spare_capacity", 3); spare > 0 {
		// a slice with room behind its length (built by append, or a filtered prefix): the length decides, never the capacity
		big := make([]TextResult, n, n+spare)
		copy(big, rs)
		rs = big
		vCover("spare-capacity")
	}
	k := vInt("k")
	out := LimitResults(rs, k)
	want := n
	if k > 0 && k <= n {
		want = k
		vCover("k-inside")
	} else {
		vCover("k-outside")
	}
	vAssert(len(out) == want, "limit-len")
	for i := range out {
		vAssert(&out[i] == &rs[i], "limit-prefix-same-backing")
	}
	vAssert(sanitizeK(k, n) == want, "sanitizeK")
}

// Autocut: result in [0, len], no panic for any float32 scores (NaN, Inf,
// equal) and any cutoff; AutocutResults returns a prefix, the whole input
// when cutoff == -1.
func H_C19_autocut() {
	n := vChoose("n", 6)
	rs := vTextResults(n, "r")
	if vChoose("spare_capacity", 2) == 1 {
		big := make([]TextResult, n, n+2)
		copy(big, rs)
		rs = big
	}
	cutoff := vInt("cutoff")
	scores := make([]float32, n)
	for i := range rs {
		scores[i] = rs[i].Score
	}
	c := Autocut(scores, cutoff)
	vAssert(c >= 0 && c <= n, "autocut-range")
	out := AutocutResults(rs, cutoff)
	vAssert(len(out) <= n, "autocutresults-len")
	for i := range out {
		vAssert(&out[i] == &rs[i], "autocutresults-prefix")
	}
	if cutoff == -1 {
		vAssert(len(out) == n, "autocut-disabled-is-identity")
		vCover("disabled")
	} else if n > 0 {
		vAssert(len(out) == c, "autocutresults-equals-autocut")
		vCover("enabled")
	}
}

func init() {
	vHarnesses["H_C19_agg_vector"] = H_C19_agg_vector
	vHarnesses["H_C19_agg_text"] = H_C19_agg_text
	vHarnesses["H_C19_agg_perm"] = H_C19_agg_perm
	vHarnesses["H_C19_agg_nan"] = H_C19_agg_nan
	vHarnesses["H_C19_fusion"] = H_C19_fusion
	vHarnesses["H_C19_merge"] = H_C19_merge
}

var vAggKinds = []ScoreAggregationKind{SumAggregation, MaxAggregation, MeanAggregation}

// expected aggregate of the scores (in input order) by the documented rule
func vAggExpect(kind ScoreAggregationKind, scores []float32) float32 {
	switch kind {
	case SumAggregation, MeanAggregation:
		sum := float32(0)
		for _, s := range scores {
			sum += s
		}
		if kind == SumAggregation {
			return sum
		}
		return sum / float32(len(scores))
	}
	return 0
}

// checks "res is the maximum of scores" definitionally (non-NaN scores)
func vAssertIsMax(res float32, scores []float32, label string) {
	isOne := false
	for _, s := range scores {
		vAssert(!(s > res), label+"-upper-bound")
		isOne = vOr(isOne, res == s)
	}
	vAssert(isOne, label+"-attained")
}

const vAggN = 4 // entries per list (quick); ids drawn from {1,2,3}

func vAggInputs(n int) ([]uint32, []float32) {
	ids := make([]uint32, n)
	scores := make([]float32, n)
	for i := 0; i < n; i++ {
		ids[i] = uint32(vChoose(vName("id", i), 3) + 1)
		scores[i] = vF32(vName("s", i))
		vAssume(scores[i] == scores[i]) // NaN inputs: see H_C19_agg_nan
	}
	return ids, scores
}

func vGroup(ids []uint32, scores []float32) (order []uint32, by map[uint32][]float32) {
	by = map[uint32][]float32{}
	for i, id := range ids {
		if _, ok := by[id]; !ok {
			order = append(order, id)
		}
		by[id] = append(by[id], scores[i])
	}
	return
}

func H_C19_agg_vector() {
	kind := vAggKinds[vChoose("kind", 3)]
	n := vChoose("n", vAggN+1)
	ids, scores := vAggInputs(n)
	in := make([]VectorResult, n)
	for i := range in {
		in[i] = VectorResult{Node: *NewVectorNodeWithID(ids[i], nil), Score: scores[i]}
	}
	agg, err := NewVectorAggregation(kind)
	vAssert(err == nil, "agg-constructor")
	out := agg.Aggregate(in)
	order, by := vGroup(ids, scores)
	vAssert(len(out) == len(order), "agg-each-id-once-count")
	for _, id := range order {
		cnt := 0
		for _, r := range out {
			if r.GetId() == id {
				cnt++
				if kind == MaxAggregation {
					vAssertIsMax(r.Score, by[id], "agg-max")
				} else {
					vAssert(vSameF32(r.Score, vAggExpect(kind, by[id])), "agg-value")
				}
			}
		}
		vAssert(cnt == 1, "agg-each-id-once")
	}
	for i := 1; i < len(out); i++ {
		// best-first for distances = ascending; NaN aggregates (Inf-Inf) have no order
		vAssert(vOr(!(out[i].Score < out[i-1].Score), vOr(out[i].Score != out[i].Score, out[i-1].Score != out[i-1].Score)), "agg-vector-ascending")
	}
	if n >= 2 {
		vCover("n>=2")
	}
}

func H_C19_agg_text() {
	kind := vAggKinds[vChoose("kind", 3)]
	n := vChoose("n", vAggN+1)
	ids, scores := vAggInputs(n)
	in := make([]TextResult, n)
	for i := range in {
		in[i] = TextResult{Id: ids[i], Score: scores[i]}
	}
	agg, err := NewTextAggregation(kind)
	vAssert(err == nil, "agg-constructor")
	out := agg.Aggregate(in)
	order, by := vGroup(ids, scores)
	vAssert(len(out) == len(order), "agg-each-id-once-count")
	for _, id := range order {
		cnt := 0
		for _, r := range out {
			if r.Id == id {
				cnt++
				if kind == MaxAggregation {
					vAssertIsMax(r.Score, by[id], "agg-max")
				} else {
					vAssert(vSameF32(r.Score, vAggExpect(kind, by[id])), "agg-value")
				}
			}
		}
		vAssert(cnt == 1, "agg-each-id-once")
	}
	for i := 1; i < len(out); i++ {
		vAssert(vOr(!(out[i].Score > out[i-1].Score), vOr(out[i].Score != out[i].Score, out[i-1].Score != out[i-1].Score)), "agg-text-descending")
	}
	if n >= 2 {
		vCover("n>=2")
	}
}

// Order independence: the id -> score map does not depend on the order of the
// input list.  Exact for max (any multiplicity <= 3) and for sum / mean with at
// most two occurrences per id ((0+a)+b = (0+b)+a is an IEEE identity, closed at
// T2); tolerance beyond that is not claimed.
func H_C19_agg_perm() {
	kind := vAggKinds[vChoose("kind", 3)]
	text := vChoose("modality", 2) == 1
	occ := 2
	if kind == MaxAggregation {
		occ = 2 + vChoose("occ", 2)
	}
	scores := make([]float32, occ)
	for i := range scores {
		scores[i] = vF32(vName("s", i))
		vAssume(scores[i] == scores[i])
	}
	other := vF32("other")
	vAssume(other == other)
	// list A: id 1 occurrences in order, id 2 in the middle; list B: id 1 occurrences reversed, id 2 first
	run := func(rev bool) (float32, float32) {
		var ids []uint32
		var ss []float32
		if rev {
			ids = append(ids, 2)
			ss = append(ss, other)
			for i := occ - 1; i >= 0; i-- {
				ids = append(ids, 1)
				ss = append(ss, scores[i])
			}
		} else {
			ids = append(ids, 1)
			ss = append(ss, scores[0])
			ids = append(ids, 2)
			ss = append(ss, other)
			for i := 1; i < occ; i++ {
				ids = append(ids, 1)
				ss = append(ss, scores[i])
			}
		}
		var r1, r2 float32
		if text {
			in := make([]TextResult, len(ids))
			for i := range in {
				in[i] = TextResult{Id: ids[i], Score: ss[i]}
			}
			agg, _ := NewTextAggregation(kind)
			for _, r := range agg.Aggregate(in) {
				if r.Id == 1 {
					r1 = r.Score
				} else {
					r2 = r.Score
				}
			}
		} else {
			in := make([]VectorResult, len(ids))
			for i := range in {
				in[i] = VectorResult{Node: *NewVectorNodeWithID(ids[i], nil), Score: ss[i]}
			}
			agg, _ := NewVectorAggregation(kind)
			for _, r := range agg.Aggregate(in) {
				if r.GetId() == 1 {
					r1 = r.Score
				} else {
					r2 = r.Score
				}
			}
		}
		return r1, r2
	}
	a1, a2 := run(false)
	b1, b2 := run(true)
	vAssert(vSameF32(a1, b1), "agg-order-independent")
	vAssert(vSameF32(a2, b2), "agg-order-independent-single")
	vCover("perm")
}

// NaN / Inf scores: aggregation never panics and still returns each id once.
func H_C19_agg_nan() {
	kind := vAggKinds[vChoose("kind", 3)]
	text := vChoose("modality", 2) == 1
	n := 3
	ids := make([]uint32, n)
	ss := make([]float32, n)
	for i := 0; i < n; i++ {
		ids[i] = uint32(vChoose(vName("id", i), 2) + 1)
		ss[i] = vF32(vName("s", i)) // any float32, NaN and Inf included
	}
	order, _ := vGroup(ids, ss)
	if text {
		in := make([]TextResult, n)
		for i := range in {
			in[i] = TextResult{Id: ids[i], Score: ss[i]}
		}
		agg, _ := NewTextAggregation(kind)
		out := agg.Aggregate(in)
		vAssert(len(out) == len(order), "agg-nan-each-id-once")
	} else {
		in := make([]VectorResult, n)
		for i := range in {
			in[i] = VectorResult{Node: *NewVectorNodeWithID(ids[i], nil), Score: ss[i]}
		}
		agg, _ := NewVectorAggregation(kind)
		out := agg.Aggregate(in)
		vAssert(len(out) == len(order), "agg-nan-each-id-once")
	}
	vCover("nan-run")
}

var vFusionKinds = []FusionKind{WeightedSumFusion, ReciprocalRankFusion, MaxFusion, MinFusion}

// Fusion: key sets, values by the definitional formula, inputs not mutated.
func H_C19_fusion() {
	kind := vFusionKinds[vChoose("fusion", 4)]
	// each of ids 1..3 is in the vector map, the text map, both or neither
	vec := map[uint32]float64{}
	txt := map[uint32]float64{}
	for id := uint32(1); id <= 3; id++ {
		m := vChoose(vName("member", int(id)), 4)
		if m&1 != 0 {
			vec[id] = vF64(vName("v", int(id)))
			vAssume(vec[id] == vec[id])
		}
		if m&2 != 0 {
			txt[id] = vF64(vName("t", int(id)))
			vAssume(txt[id] == txt[id])
		}
	}
	cfg := &FusionConfig{VectorWeight: vF64("wv"), TextWeight: vF64("wt"), K: vF64("K")}
	vAssume(cfg.K > 0)
	vAssume(vFinite64(cfg.K))
	if kind == ReciprocalRankFusion {
		// exact-value clause: distinct scores within a modality (ties get only the key-set law)
		for a := uint32(1); a <= 3; a++ {
			for b := a + 1; b <= 3; b++ {
				if _, ok := vec[a]; ok {
					if _, ok2 := vec[b]; ok2 {
						vAssume(vec[a] != vec[b])
					}
				}
				if _, ok := txt[a]; ok {
					if _, ok2 := txt[b]; ok2 {
						vAssume(txt[a] != txt[b])
					}
				}
			}
		}
	}
	vecCopy := map[uint32]float64{}
	for k, v := range vec {
		vecCopy[k] = v
	}
	txtCopy := map[uint32]float64{}
	for k, v := range txt {
		txtCopy[k] = v
	}
	f, err := NewFusion(kind, cfg)
	vAssert(err == nil, "fusion-constructor")
	out := f.Combine(vec, txt)
	// inputs not mutated
	vAssert(len(vec) == len(vecCopy) && len(txt) == len(txtCopy), "fusion-inputs-not-mutated-len")
	for k, v := range vecCopy {
		vAssert(vSameF64(vec[k], v), "fusion-inputs-not-mutated")
	}
	for k, v := range txtCopy {
		vAssert(vSameF64(txt[k], v), "fusion-inputs-not-mutated")
	}
	rank := func(m map[uint32]float64, id uint32, ascending bool) int {
		r := 0
		for o, s := range m {
			if o == id {
				continue
			}
			if ascending && s < m[id] {
				r++
			}
			if !ascending && s > m[id] {
				r++
			}
		}
		return r
	}
	for id := uint32(1); id <= 3; id++ {
		v, inV := vec[id]
		t, inT := txt[id]
		got, inOut := out[id]
		switch kind {
		case MinFusion:
			vAssert(inOut == (inV && inT), "fusion-min-intersection")
			if inOut {
				vAssert(vAnd(!(got > v), !(got > t)), "fusion-min-lower")
				vAssert(vOr(got == v, got == t), "fusion-min-attained")
			}
		case MaxFusion:
			vAssert(inOut == (inV || inT), "fusion-union")
			if inV && inT {
				vAssert(vAnd(!(got < v), !(got < t)), "fusion-max-upper")
				vAssert(vOr(got == v, got == t), "fusion-max-attained")
			} else if inV {
				vAssert(vSameF64(got, v), "fusion-max-single")
			} else if inT {
				vAssert(vSameF64(got, t), "fusion-max-single")
			}
		case WeightedSumFusion:
			vAssert(inOut == (inV || inT), "fusion-union")
			if inV && inT {
				vAssert(vSameF64(got, v*cfg.VectorWeight+t*cfg.TextWeight), "fusion-weighted-sum")
			} else if inV {
				vAssert(vSameF64(got, v*cfg.VectorWeight), "fusion-weighted-sum")
			} else if inT {
				vAssert(vSameF64(got, t*cfg.TextWeight), "fusion-weighted-sum")
			}
		case ReciprocalRankFusion:
			vAssert(inOut == (inV || inT), "fusion-union")
			if inV && inT {
				vAssert(vSameF64(got, 1.0/(cfg.K+float64(rank(vec, id, true)))+1.0/(cfg.K+float64(rank(txt, id, false)))), "fusion-rrf")
			} else if inV {
				vAssert(vSameF64(got, 1.0/(cfg.K+float64(rank(vec, id, true)))), "fusion-rrf")
			} else if inT {
				vAssert(vSameF64(got, 1.0/(cfg.K+float64(rank(txt, id, false)))), "fusion-rrf")
			}
		}
	}
	vAssert(len(out) <= 3, "fusion-no-foreign-keys")
	for k := range out {
		vAssert(k >= 1 && k <= 3, "fusion-no-foreign-keys")
	}
	if len(vec) > 0 && len(txt) > 0 {
		vCover("both-nonempty")
	}
	if len(vec) == 0 || len(txt) == 0 {
		vCover("one-empty")
	}
}

// mergeResults: each id once with its highest score; nil on empty.
func H_C19_merge() {
	n := vChoose("n", 5)
	in := make([]HybridSearchResult, n)
	for i := range in {
		in[i] = HybridSearchResult{ID: uint32(vChoose(vName("id", i), 3) + 1), Score: vF64(vName("s", i))}
		vAssume(in[i].Score == in[i].Score)
	}
	out := mergeResults(in)
	if n == 0 {
		vAssert(out == nil, "merge-nil-on-empty")
		vCover("empty")
		return
	}
	seen := map[uint32]bool{}
	for _, r := range in {
		seen[r.ID] = true
	}
	vAssert(len(out) == len(seen), "merge-each-id-once-count")
	for id := range seen {
		cnt := 0
		for _, r := range out {
			if r.ID == id {
				cnt++
				attained := false
				for _, x := range in {
					if x.ID == id {
						vAssert(!(x.Score > r.Score), "merge-highest")
						attained = vOr(attained, r.Score == x.Score)
					}
				}
				vAssert(attained, "merge-attained")
			}
		}
		vAssert(cnt == 1, "merge-each-id-once")
	}
	cp := append([]HybridSearchResult(nil), out...)
	sortResultsByScore(cp)
	for i := 1; i < len(cp); i++ {
		vAssert(!(cp[i].Score > cp[i-1].Score), "sort-descending")
	}
	vCover("nonempty")
}

func init() {
	vHarnesses["H_C19_merge_large"] = H_C19_merge_large
	vHarnesses["H_C19_agg_large"] = H_C19_agg_large
}

// mergeResults above the size where sort.Slice stops being a stable insertion sort (12): 3 sources x 5..7
// documents, ids repeated across the sources, concrete scores except two symbolic ones
func H_C19_merge_large() {
	per := 5 + vChoose("per_source", 3)
	var in []HybridSearchResult
	for src := 0; src < 3; src++ {
		for d := 0; d < per; d++ {
			// the same document scores differently in every source; which source holds the best one varies with d
			sc := float64((d*7+src*5)%11) + float64((src+d)%3)*0.25
			in = append(in, HybridSearchResult{ID: uint32(100 + d), Score: sc})
		}
	}
	a, b := vChoose("sym_a", len(in)), vChoose("sym_b", 3)
	in[a].Score = vF64("sa")
	in[(a+per*(1+b%2)+b)%len(in)].Score = vF64("sb")
	for _, r := range in {
		vAssume(r.Score == r.Score)
	}
	cp := append([]HybridSearchResult(nil), in...)
	out := mergeResults(in)
	for i := range in {
		vAssert(in[i].ID == cp[i].ID && vSameF64(in[i].Score, cp[i].Score), "merge-input-untouched")
	}
	vAssert(len(out) == per, "merge-each-id-once-count")
	for d := 0; d < per; d++ {
		id := uint32(100 + d)
		cnt := 0
		for _, r := range out {
			if r.ID == id {
				cnt++
				attained := false
				for _, x := range in {
					if x.ID == id {
						vAssert(!(x.Score > r.Score), "merge-highest")
						attained = vOr(attained, r.Score == x.Score)
					}
				}
				vAssert(attained, "merge-attained")
			}
		}
		vAssert(cnt == 1, "merge-each-id-once")
	}
	sortResultsByScore(out)
	for i := 1; i < len(out); i++ {
		vAssert(!(out[i].Score > out[i-1].Score), "sort-descending")
	}
	vCover("ran")
}

// aggregation above 12 entries: two or three per-query lists of 7 hits each (each list sorted, as the searches produce
// them), overlapping or disjoint id ranges, one symbolic score: each id once, the rule's value, best-first order
func H_C19_agg_large() {
	kind := []ScoreAggregationKind{SumAggregation, MaxAggregation, MeanAggregation}[vChoose("kind", 3)]
	lists := 2 + vChoose("lists", 2)
	shift := []int{0, 3, 7}[vChoose("overlap", 3)] // id offset between consecutive lists: identical / overlapping / disjoint
	sym := vF32("s")
	vAssume(vAnd(sym >= 0, sym <= 64))
	symAt := vChoose("sym_at", 3)
	type ent struct {
		id uint32
		sc float32
	}
	var all []ent
	for l := 0; l < lists; l++ {
		for j := 0; j < 7; j++ {
			sc := float32(j*3+l) + float32((l*5+j)%4)*0.125
			if l == 1 && j == symAt*3 {
				sc = sym
			}
			all = append(all, ent{uint32(10 + l*shift + j), sc})
		}
	}
	vec := vChoose("modality", 2) == 0
	want := func(id uint32) (float32, int) {
		var sum, mx float32
		cnt := 0
		for _, e := range all {
			if e.id == id {
				if cnt == 0 || e.sc > mx { // "max" is the numerically largest score in both modalities
					mx = e.sc
				}
				sum += e.sc
				cnt++
			}
		}
		switch kind {
		case SumAggregation:
			return sum, cnt
		case MaxAggregation:
			return mx, cnt
		}
		return sum / float32(cnt), cnt
	}
	distinct := map[uint32]bool{}
	for _, e := range all {
		distinct[e.id] = true
	}
	if vec {
		in := make([]VectorResult, len(all))
		for i, e := range all {
			in[i] = VectorResult{Node: *NewVectorNodeWithID(e.id, nil), Score: e.sc}
		}
		agg, _ := NewVectorAggregation(kind)
		out := agg.Aggregate(in)
		vAssert(len(out) == len(distinct), "agg-each-id-once-count")
		for i, r := range out {
			w, c := want(r.GetId())
			vAssert(c > 0, "agg-known-id")
			vAssert(vSameF32(r.Score, w), "agg-value")
			for j := 0; j < i; j++ {
				vAssert(out[j].GetId() != r.GetId(), "agg-each-id-once")
			}
			if i > 0 {
				vAssert(!(r.Score < out[i-1].Score), "agg-best-first")
			}
		}
	} else {
		in := make([]TextResult, len(all))
		for i, e := range all {
			in[i] = TextResult{Id: e.id, Score: e.sc}
		}
		agg, _ := NewTextAggregation(kind)
		out := agg.Aggregate(in)
		vAssert(len(out) == len(distinct), "agg-each-id-once-count")
		for i, r := range out {
			w, c := want(r.GetId())
			vAssert(c > 0, "agg-known-id")
			vAssert(vSameF32(r.Score, w), "agg-value")
			for j := 0; j < i; j++ {
				vAssert(out[j].GetId() != r.GetId(), "agg-each-id-once")
			}
			if i > 0 {
				vAssert(!(r.Score > out[i-1].Score), "agg-best-first")
			}
		}
	}
	vCover("ran")
}
