//go:build verif

package comet

import "sync"

// C11 — concurrency (claimed in part): 2-thread interleavings with context switches at
// synchronisation operations (Lock/RLock/Unlock, atomics, sync.Pool Get/Put, channel
// operations, WaitGroup) and a pre-emption budget, for named operation pairs.
// Assertions: no panic, no deadlock, no operation error caused by the interleaving alone,
// the visibility rule, unique ids.  NOT covered: the Go memory model as -race sees it.

func init() {
	vHarnesses["H_C11_ids"] = H_C11_ids
	vHarnesses["H_C11_flat"] = H_C11_flat
	vHarnesses["H_C11_search_search"] = H_C11_search_search
	vHarnesses["H_C11_search_search_hnsw"] = H_C11_search_search_hnsw
	vHarnesses["H_C11_text"] = H_C11_text
	vHarnesses["H_C11_hybrid"] = H_C11_hybrid
	vHarnesses["H_C11_store_add"] = H_C11_store_add
	vHarnesses["H_C11_store_flush"] = H_C11_store_flush
	vHarnesses["H_C11_store_search"] = H_C11_store_search
	vHarnesses["H_C11_store_close"] = H_C11_store_close
}

// vPar runs a and b as two goroutines under every schedule with at most 'budget' pre-emptions
// vParLockset: also run the lockset analysis over the two threads (in-memory indexes only:
// the store hands data over through channels, which Eraser's discipline does not know)
var vParLockset bool

func vPar(budget int, a, b func()) {
	var wg sync.WaitGroup
	wg.Add(2)
	vSchedFork(true)
	vPreempt(budget)
	vLockset(vParLockset)
	defer vLockset(false)
	go func() { defer wg.Done(); a() }()
	go func() { defer wg.Done(); b() }()
	wg.Wait()
	vPreempt(0)
	vSchedFork(false)
}

// automatically generated ids are unique across goroutines
func H_C11_ids() {
	var a, b [2]uint32
	vPar(3, func() {
		a[0] = NewVectorNode(nil).ID()
		a[1] = NewMetadataNode(nil).ID()
	}, func() {
		b[0] = NewVectorNode(nil).ID()
		b[1] = NewVectorNode(nil).ID()
	})
	all := []uint32{a[0], a[1], b[0], b[1]}
	for i := range all {
		vAssert(all[i] != 0, "id-nonzero")
		for j := 0; j < i; j++ {
			vAssert(all[i] != all[j], "ids-unique-across-goroutines")
		}
	}
	vCover("ran")
}

func vValidVec(rs []VectorResult, must, may []uint32, label string) {
	ids := vIDsOfVec(rs)
	for i, id := range ids {
		vAssert(vContains(must, id) || vContains(may, id), label+"-only-added-not-removed-documents")
		for j := 0; j < i; j++ {
			vAssert(ids[j] != id, label+"-each-id-once")
		}
	}
	for _, id := range must {
		vAssert(vContains(ids, id), label+"-completed-adds-visible")
	}
	for i := 1; i < len(rs); i++ {
		vAssert(!(rs[i].Score < rs[i-1].Score), label+"-ascending")
	}
}

// flat / hnsw / ivf: Add || search, Remove || search, Remove || Remove, Flush || search, Add || Flush
func H_C11_flat() {
	vParLockset = true
	vPQConcreteCB = true
	kind := vChoose("kind", 5)
	u := vMakeIndexC(kind, L2Squared, 1, 1, false)
	idx := u.idx
	add := func(id uint32, x float32) error { return idx.Add(*NewVectorNodeWithID(id, []float32{x})) }
	vAssert(add(5, 1) == nil && add(3, 4) == nil, "add-ok")
	search := func() ([]VectorResult, error) {
		return idx.NewSearch().WithQuery([]float32{2}).WithK(10).WithNProbes(0).Execute()
	}
	var rs []VectorResult
	var e1, e2 error
	switch vChoose("pair", 6) {
	case 5: // Add || "find similar" search (WithNode: the stored vector is looked up under the lock first)
		vPar(2, func() { e1 = add(9, 7) }, func() { rs, e2 = idx.NewSearch().WithNode(5).WithK(10).WithNProbes(0).Execute() })
		vAssert(e1 == nil && e2 == nil, "no-error-from-interleaving")
		vValidVec(rs, []uint32{5, 3}, []uint32{9}, "add-findsimilar")
	case 0: // Add || search
		vPar(2, func() { e1 = add(9, 7) }, func() { rs, e2 = search() })
		vAssert(e1 == nil && e2 == nil, "no-error-from-interleaving")
		vValidVec(rs, []uint32{5, 3}, []uint32{9}, "add-search")
		r2, _ := search()
		vValidVec(r2, []uint32{5, 3, 9}, nil, "after")
	case 1: // Remove || search
		vPar(2, func() { e1 = idx.Remove(*NewVectorNodeWithID(5, nil)) }, func() { rs, e2 = search() })
		vAssert(e1 == nil && e2 == nil, "no-error-from-interleaving")
		vValidVec(rs, []uint32{3}, []uint32{5}, "remove-search")
		r2, _ := search()
		vValidVec(r2, []uint32{3}, nil, "after")
	case 2: // Remove || Remove of the same id: exactly one succeeds
		vPar(2, func() { e1 = idx.Remove(*NewVectorNodeWithID(5, nil)) }, func() { e2 = idx.Remove(*NewVectorNodeWithID(5, nil)) })
		vAssert((e1 == nil) != (e2 == nil), "exactly-one-concurrent-remove-succeeds")
		r2, _ := search()
		vValidVec(r2, []uint32{3}, nil, "after")
	case 3: // Flush || search after a removal
		vAssert(idx.Remove(*NewVectorNodeWithID(5, nil)) == nil, "remove-ok")
		vPar(2, func() { e1 = idx.Flush() }, func() { rs, e2 = search() })
		vAssert(e1 == nil && e2 == nil, "no-error-from-interleaving")
		vValidVec(rs, []uint32{3}, nil, "flush-search")
	case 4: // Add || Flush after a removal
		vAssert(idx.Remove(*NewVectorNodeWithID(5, nil)) == nil, "remove-ok")
		vPar(2, func() { e1 = add(9, 7) }, func() { e2 = idx.Flush() })
		vAssert(e1 == nil && e2 == nil, "no-error-from-interleaving")
		r2, _ := search()
		vValidVec(r2, []uint32{3, 9}, nil, "after")
	}
	vCover("ran")
}

// two concurrent searches (pooled document filters and heaps) on one index and on two indexes
var vSSBudget = 1

func H_C11_search_search_hnsw() { vSSBudget = 2; hC11SS(vKHNSW) }
func H_C11_search_search()      { hC11SS(vChoose("kind", 5)) }

func hC11SS(kind int) {
	vParLockset = true
	u := vMakeIndex(kind, L2Squared, 1, 1)
	w := u
	if vChoose("two_indexes", 2) == 1 {
		w = vMakeIndex(kind, L2Squared, 1, 1)
	}
	for _, x := range []*vUT{u, w} {
		if len(x.m.entries) > 0 {
			continue
		}
		for i := 0; i < 3; i++ {
			vAddBoth(x.idx, x.m, vIDs[i], vCopy(vConcreteVecs[i][:1]))
		}
	}
	var r1, r2 []VectorResult
	var e1, e2 error
	vPar(vSSBudget, func() {
		r1, e1 = u.idx.NewSearch().WithQuery([]float32{2}).WithK(2).WithDocumentIDs(vIDs[0], vIDs[1]).WithNProbes(0).Execute()
	}, func() {
		r2, e2 = w.idx.NewSearch().WithQuery([]float32{-1}).WithK(3).WithDocumentIDs(vIDs[1], vIDs[2]).WithNProbes(0).Execute()
	})
	vAssert(e1 == nil && e2 == nil, "no-error-from-interleaving")
	vCheckExact(r1, u.m.eligible([]float32{2}, 0, []uint32{vIDs[0], vIDs[1]}), 2)
	vCheckExact(r2, w.m.eligible([]float32{-1}, 0, []uint32{vIDs[1], vIDs[2]}), 3)
	vCover("ran")
}

// BM25: Add || search, search || search (pooled heaps), Remove || Flush
func H_C11_text() {
	vParLockset = true
	ix := NewBM25SearchIndex()
	ix.Add(5, "tick fox dog")
	ix.Add(3, "dog")
	ix.Add(9, "fox")
	var r1, r2 []TextResult
	var e1, e2 error
	switch vChoose("pair", 4) {
	case 3: // two multi-query searches with id filters (one pooled filter per search, used by every query of it)
		vPar(2, func() { r1, e1 = ix.NewSearch().WithQuery("fox", "tick").WithK(10).WithDocumentIDs(5, 3).Execute() },
			func() { r2, e2 = ix.NewSearch().WithQuery("dog", "fox").WithK(10).WithDocumentIDs(3, 9).Execute() })
		vAssert(e1 == nil && e2 == nil, "no-error-from-interleaving")
		vAssert(len(r1) == 1 && r1[0].Id == 5, "search-1-exact")
		vAssert(len(r2) == 2 && (r2[0].Id == 3 || r2[0].Id == 9) && (r2[1].Id == 3 || r2[1].Id == 9) && r2[0].Id != r2[1].Id, "search-2-exact")
	case 0:
		vPar(2, func() { e1 = ix.Add(2, "fox emu") }, func() { r1, e2 = ix.NewSearch().WithQuery("fox").WithK(1).Execute() })
		vAssert(e1 == nil && e2 == nil && len(r1) == 1, "no-error-from-interleaving")
		vAssert(r1[0].Id == 5 || r1[0].Id == 9 || r1[0].Id == 2, "only-added-documents")
	case 1:
		vPar(2, func() { r1, e1 = ix.NewSearch().WithQuery("fox").WithK(1).WithDocumentIDs(5, 3).Execute() },
			func() { r2, e2 = ix.NewSearch().WithQuery("dog").WithK(1).WithDocumentIDs(3, 9).Execute() })
		vAssert(e1 == nil && e2 == nil, "no-error-from-interleaving")
		vAssert(len(r1) == 1 && r1[0].Id == 5, "search-1-exact")
		vAssert(len(r2) == 1 && r2[0].Id == 3, "search-2-exact")
	case 2:
		// one removal is already pending (Flush has work to do) while another one races with the Flush
		if vChoose("pending_before", 2) == 1 {
			vAssert(ix.Remove(3) == nil, "remove-ok")
		}
		vPar(2, func() { e1 = ix.Remove(5) }, func() { e2 = ix.Flush() })
		vAssert(e1 == nil && e2 == nil, "no-error-from-interleaving")
		for pass := 0; pass < 2; pass++ {
			r, _ := ix.NewSearch().WithQuery("tick").WithK(0).Execute()
			vAssert(len(r) == 0, "removal-completed-then-invisible")
			rf, _ := ix.NewSearch().WithQuery("fox").WithK(0).Execute()
			vAssert(len(rf) == 1 && rf[0].Id == 9, "removal-completed-then-invisible")
			vAssert(ix.Flush() == nil, "flush-ok")
		}
	}
	vCover("ran")
}

// hybrid: Add || Add (auto ids), Add || Remove, Add || search
func H_C11_hybrid() {
	vParLockset = true
	flat, _ := NewFlatIndex(1, L2Squared)
	h := NewHybridSearchIndex(flat, NewBM25SearchIndex(), NewRoaringMetadataIndex())
	vAssert(h.AddWithID(5, []float32{1}, "fox", map[string]interface{}{"c": "x"}) == nil, "add-ok")
	var id1, id2 uint32
	var e1, e2 error
	switch vChoose("pair", 3) {
	case 0:
		vPar(2, func() { id1, e1 = h.Add([]float32{4}, "dog", nil) }, func() { id2, e2 = h.Add([]float32{7}, "", map[string]interface{}{"c": "y"}) })
		vAssert(e1 == nil && e2 == nil, "no-error-from-interleaving")
		vAssert(id1 != id2 && id1 != 0 && id2 != 0, "ids-unique-across-goroutines")
		r, e := h.NewSearch().WithVector([]float32{2}).WithK(10).Execute()
		vAssert(e == nil && len(r) == 3, "all-added-documents-visible")
	case 1:
		vPar(2, func() { e1 = h.AddWithID(9, []float32{4}, "dog", nil) }, func() { e2 = h.Remove(5) })
		vAssert(e1 == nil && e2 == nil, "no-error-from-interleaving")
		r, e := h.NewSearch().WithVector([]float32{2}).WithK(10).Execute()
		vAssert(e == nil && len(r) == 1 && r[0].ID == 9, "visibility-after-quiescence")
	case 2:
		var r []HybridSearchResult
		vPar(2, func() { e1 = h.AddWithID(9, []float32{4}, "dog", nil) }, func() { r, e2 = h.NewSearch().WithVector([]float32{2}).WithText("fox").WithK(10).Execute() })
		vAssert(e1 == nil && e2 == nil, "no-error-from-interleaving")
		ids := vIDsOfHybrid(r)
		vAssert(vContains(ids, 5), "completed-adds-visible")
		for _, id := range ids {
			vAssert(id == 5 || id == 9, "only-added-documents")
		}
	}
	vCover("ran")
}

// store: two concurrent adds with one-document memtables (a rotation falls between choosing
// the writable memtable and writing to it); Add || Flush; search || Flush
func H_C11_store_add()    { hC11Store(0) }
func H_C11_store_flush()  { hC11Store(1) }
func H_C11_store_search() { hC11Store(2) }

func hC11Store(pair int) {
	vStoreTemplates = 3
	dir := vTempDir()
	cfg := vFreshStoreCfg(dir, true)
	s, err := OpenPersistentHybridIndex(cfg)
	vAssert(err == nil, "open-ok")
	vAssert(s.AddWithID(11, []float32{1}, "", nil) == nil, "add-ok")
	var e1, e2 error
	switch pair {
	case 0:
		vTag("add-add-rotation")
		vPar(1, func() { e1 = s.AddWithID(12, []float32{5}, "", nil) }, func() { e2 = s.AddWithID(13, []float32{9}, "", nil) })
		vAssert(e1 == nil && e2 == nil, "no-error-from-interleaving")
		r, e := s.NewSearch().WithVector([]float32{2}).WithK(10).Execute()
		vAssert(e == nil && len(r) == 3, "all-added-documents-visible")
	case 1:
		vPar(1, func() { e1 = s.AddWithID(12, []float32{5}, "", nil) }, func() { e2 = s.Flush() })
		vAssert(e1 == nil && e2 == nil, "no-error-from-interleaving")
	case 2:
		var r []HybridSearchResult
		vPar(1, func() { r, e1 = s.NewSearch().WithVector([]float32{2}).WithK(10).Execute() }, func() { e2 = s.Flush() })
		vAssert(e1 == nil && e2 == nil, "no-error-from-interleaving")
		vAssert(vContains(vIDsOfHybrid(r), 11), "completed-adds-visible")
	}
	vAssert(s.Close() == nil, "close-ok")
	vCover("ran")
}

// Close racing with an operation: the operation either completes or reports the closed store — no panic, no deadlock
func H_C11_store_close() {
	vStoreTemplates = 3
	dir := vTempDir()
	s, err := OpenPersistentHybridIndex(vFreshStoreCfg(dir, false))
	vAssert(err == nil, "open-ok")
	vAssert(s.AddWithID(11, []float32{1}, "", nil) == nil, "add-ok")
	var e1, e2 error
	switch vChoose("op", 4) {
	case 3: // Close while a compaction is due / in flight (two segments, threshold 2)
		s.config.CompactionThreshold = 2
		vAssert(s.Flush() == nil, "flush-ok")
		vAssert(s.AddWithID(12, []float32{5}, "", nil) == nil, "add-ok")
		vAssert(s.Flush() == nil, "flush-ok")
		vPar(1, func() { e1 = s.Close() }, func() { s.TriggerCompaction() })
	case 0:
		vPar(1, func() { e1 = s.Close() }, func() { e2 = s.AddWithID(12, []float32{5}, "", nil) })
	case 1:
		vPar(1, func() { e1 = s.Close() }, func() { _, e2 = s.NewSearch().WithVector([]float32{2}).WithK(10).Execute() })
	case 2:
		vPar(1, func() { e1 = s.Close() }, func() { e2 = s.Flush() })
	}
	vAssert(e1 == nil, "close-ok")
	_ = e2
	vAssert(!vFSExists(dir+"/LOCK"), "lock-released")
	vCover("ran")
}

func init() { vHarnesses["H_C11_meta"] = H_C11_meta }

// metadata index: Add || search, Remove || search, Add || Add
func H_C11_meta() {
	vParLockset = true
	mi := NewRoaringMetadataIndex()
	vAssert(mi.Add(*NewMetadataNodeWithID(5, map[string]interface{}{"c": "x", "n": 3})) == nil, "add-ok")
	vAssert(mi.Add(*NewMetadataNodeWithID(3, map[string]interface{}{"c": "y", "n": -4})) == nil, "add-ok")
	ids := func(rs []MetadataResult) []uint32 {
		var o []uint32
		for _, r := range rs {
			o = append(o, r.GetId())
		}
		return o
	}
	var rs []MetadataResult
	var e1, e2 error
	switch vChoose("pair", 4) {
	case 3: // two read-only searches with negative operands (mixed-sign numeric field): searches must not write
		var rs2 []MetadataResult
		vPar(2, func() { rs, e1 = mi.NewSearch().WithFilters(Lt("n", -1)).Execute() },
			func() { rs2, e2 = mi.NewSearch().WithFilters(Gte("n", -4)).Execute() })
		vAssert(e1 == nil && e2 == nil, "no-error-from-interleaving")
		g1, g2 := ids(rs), ids(rs2)
		vAssert(len(g1) == 1 && g1[0] == 3, "search-1-exact")
		vAssert(len(g2) == 2 && vContains(g2, 3) && vContains(g2, 5), "search-2-exact")
		after, _ := mi.NewSearch().WithFilters(Exists("n")).Execute()
		vAssert(len(after) == 2, "searches-left-the-index-unchanged")
	case 0:
		vPar(2, func() { e1 = mi.Add(*NewMetadataNodeWithID(9, map[string]interface{}{"c": "x", "n": 8})) },
			func() { rs, e2 = mi.NewSearch().WithFilters(Eq("c", "x"), Gte("n", 0)).Execute() })
		vAssert(e1 == nil && e2 == nil, "no-error-from-interleaving")
		got := ids(rs)
		vAssert(vContains(got, 5) && !vContains(got, 3), "completed-adds-visible")
		for _, id := range got {
			vAssert(id == 5 || id == 9, "only-matching-added-documents")
		}
	case 1:
		vPar(2, func() { e1 = mi.Remove(*NewMetadataNodeWithID(5, nil)) },
			func() { rs, e2 = mi.NewSearch().WithFilters(Ne("c", "zz")).Execute() })
		vAssert(e1 == nil && e2 == nil, "no-error-from-interleaving")
		got := ids(rs)
		vAssert(vContains(got, 3), "untouched-document-visible")
		after, _ := mi.NewSearch().Execute()
		vAssert(len(after) == 1 && after[0].GetId() == 3, "visibility-after-quiescence")
	case 2:
		vPar(2, func() { e1 = mi.Add(*NewMetadataNodeWithID(9, map[string]interface{}{"c": "x"})) },
			func() { e2 = mi.Add(*NewMetadataNodeWithID(2, map[string]interface{}{"n": 1})) })
		vAssert(e1 == nil && e2 == nil, "no-error-from-interleaving")
		after, _ := mi.NewSearch().Execute()
		vAssert(len(after) == 4, "all-added-documents-visible")
	}
	vCover("ran")
}

func init() { vHarnesses["H_C11_ids_hybrid"] = H_C11_ids_hybrid }

// automatically generated ids through the hybrid index's Add, on two index instances used from two goroutines, one
// of which also has Adds REJECTED (wrong dimension, a metadata value of an unsupported type): every id handed to a
// successful Add is different from every other, whatever the interleaving
func H_C11_ids_hybrid() {
	f1, _ := NewFlatIndex(1, L2Squared)
	f2, _ := NewFlatIndex(1, L2Squared)
	h1 := NewHybridSearchIndex(f1, NewBM25SearchIndex(), NewRoaringMetadataIndex())
	h2 := NewHybridSearchIndex(f2, nil, nil)
	var got []uint32
	var errs [2]error
	reject := vChoose("rejected_by", 2)
	vPar(3, func() {
		id, err := h1.Add([]float32{1}, "fox", nil)
		vAssert(err == nil, "add-ok")
		got = append(got, id)
		if reject == 0 {
			_, errs[0] = h1.Add([]float32{1, 2}, "dog", nil) // wrong dimension
		} else {
			_, errs[0] = h1.Add([]float32{3}, "dog", map[string]interface{}{"c": []int{1}}) // unsupported metadata value
		}
		id2, err2 := h1.Add([]float32{2}, "cat", nil)
		vAssert(err2 == nil, "add-ok")
		got = append(got, id2)
	}, func() {
		id, err := h2.Add([]float32{5}, "", nil)
		vAssert(err == nil, "add-ok")
		id2, err2 := h2.Add([]float32{6}, "", nil)
		vAssert(err2 == nil, "add-ok")
		got = append(got, id, id2)
	})
	vAssert(errs[0] != nil, "bad-add-is-rejected")
	vAssert(len(got) == 4, "four-successful-adds")
	for i := range got {
		for j := 0; j < i; j++ {
			vAssert(got[i] != got[j], "ids-unique-across-goroutines-and-instances")
		}
	}
	// and the four documents are all findable under the ids they were given
	r1, e1 := h1.NewSearch().WithVector([]float32{0}).WithK(10).Execute()
	r2, e2 := h2.NewSearch().WithVector([]float32{0}).WithK(10).Execute()
	vAssert(e1 == nil && e2 == nil, "search-ok")
	vAssert(len(r1) == 2 && len(r2) == 2, "each-instance-holds-its-two-documents")
	vCover("ran")
}
