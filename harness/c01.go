//go:build verif

package comet

// C01 — flat index returns exactly the k nearest live vectors.

func init() {
	vHarnesses["H_C01_flat_q"] = H_C01_flat_q
	vHarnesses["H_C01_flat_t"] = H_C01_flat_t
	vHarnesses["H_C01_flat_q3"] = H_C01_flat_q3
	vHarnesses["H_C01_flat_t4"] = H_C01_flat_t4
	vHarnesses["H_C01_flat_qh"] = H_C01_flat_qh
	vHarnesses["H_C01_flat_t3"] = H_C01_flat_t3
	vHarnesses["H_C01_flat_dim"] = H_C01_flat_dim
}

// quick shapes
func H_C01_flat_q() { hC01Flat(1, 2, 2, 1, true, false, false) }   // n<=2, d<=2, <=1 op (remove/flush), all filters
func H_C01_flat_q3() { hC01Flat(3, 3, 1, 0, false, false, false) } // n=3, d=1, no op, 5 filter patterns
func H_C01_flat_qh() { hC01Flat(1, 2, 1, 3, false, true, true) }   // histories: n<=2 then <=3 ops incl. Add, l2sq, no filter / threshold
// thorough shapes
func H_C01_flat_t() { hC01Flat(1, 2, 1, 2, true, true, false) }
func H_C01_flat_t3() { hC01Flat(3, 3, 2, 1, true, false, false) }
func H_C01_flat_t4() { hC01Flat(4, 4, 1, 0, false, false, false) }

// history: n adds (fresh ids, in a chosen id order), then up to maxOps of
// Remove(any id added, also already removed or never added) / Flush /
// Add(fresh); then one search with symbolic query, k, threshold, id filter.
func hC01Flat(minN, maxN, maxDim, maxOps int, fullFilter, withAdd, plain bool) {
	kind := L2Squared
	if !plain {
		kind = vMetrics[vChoose("metric", 3)]
	}
	dim := 1 + vChoose("dim", maxDim)
	idx, err := NewFlatIndex(dim, kind)
	vAssert(err == nil, "constructor")
	m := vNewRef(kind)
	n := minN + vChoose("n", maxN-minN+1)
	// explicit ids out of insertion order: id of the i-th vector
	idOf := func(i int) uint32 { return []uint32{5, 3, 9, 2, 7, 4}[i] }
	added := 0
	for i := 0; i < n; i++ {
		vAddBoth(idx, m, idOf(i), vVec(vName("v", i), dim))
		added++
	}
	ops := vChoose("nops", maxOps+1)
	for o := 0; o < ops; o++ {
		nk := 2
		if withAdd {
			nk = 3
		}
		switch vChoose(vName("op", o), nk) {
		case 0:
			t := vChoose(vName("target", o), added+1) // last = an id never added
			id := uint32(77)
			if t < added {
				id = idOf(t)
			}
			vRemoveBoth(idx, m, id)
		case 1:
			vFlushBoth(idx, m)
		case 2:
			if added < maxN+2 {
				vAddBoth(idx, m, idOf(added), vVec(vName("v", added), dim))
				added++
			}
		}
	}
	q := vVec("q", dim)
	k := vInt("k")
	th := float32(0)
	if !plain {
		th = vF32("th")
		vAssume(th >= 0)
	}
	var ids []uint32
	for i := 0; i < added; i++ {
		ids = append(ids, idOf(i))
	}
	var filt []uint32
	if plain {
	} else if fullFilter {
		filt = vFilter(ids, 77)
	} else {
		switch vChoose("filt", 6) {
		case 5: // an unsorted list whose span equals its length: (5, 9, 7) — not a contiguous run
			filt = []uint32{ids[0], ids[len(ids)-1], ids[0] + 2}
		case 1:
			filt = []uint32{77}
		case 2:
			filt = []uint32{ids[0]}
		case 3:
			filt = append(filt, ids[1:]...)
		case 4:
			filt = []uint32{ids[len(ids)-1], 77}
		}
	}
	res, serr := idx.NewSearch().WithQuery(q).WithK(k).WithThreshold(th).WithDocumentIDs(filt...).Execute()
	pq, perr := m.dist.Preprocess(vCopy(q))
	vAssert((serr == nil) == (perr == nil), "search-error-iff-query-rejected")
	if serr != nil {
		vCover("query-rejected")
		return
	}
	E := m.eligible(pq, th, filt)
	vCheckExact(res, E, k)
	if len(res) > 0 {
		vCover("nonempty-result")
	}
	if len(res) < m.liveCount() {
		vCover("something-left-out")
	}
}

// wrong-dimension adds and queries are errors and change nothing
func H_C01_flat_dim() {
	kind := vMetrics[vChoose("metric", 3)]
	idx, _ := NewFlatIndex(2, kind)
	m := vNewRef(kind)
	vAddBoth(idx, m, 1, vVec("v0", 2))
	bad := 1 + 2*vChoose("badlen", 2) // 1 or 3
	err := idx.Add(*NewVectorNodeWithID(2, vVec("w", bad)))
	vAssert(err != nil, "wrong-dimension-add-rejected")
	_, serr := idx.NewSearch().WithQuery(vVec("q", bad)).WithK(1).Execute()
	vAssert(serr != nil, "wrong-dimension-query-rejected")
	q := vVec("p", 2)
	res, e2 := idx.NewSearch().WithQuery(q).WithK(5).Execute()
	pq, perr := m.dist.Preprocess(vCopy(q))
	vAssert((e2 == nil) == (perr == nil), "search-error-iff-query-rejected")
	if e2 == nil {
		vCheckExact(res, m.eligible(pq, 0, nil), 5)
		vCover("ran")
	}
	_, e3 := idx.NewSearch().WithK(1).Execute()
	vAssert(e3 != nil, "no-query-is-an-error")
}

func init() { vHarnesses["H_C01_flat_many"] = H_C01_flat_many }

// more live vectors than the builder's default k (10): 12 concrete vectors (one removed),
// concrete query, k over all of int, symbolic threshold, optional id restriction —
// "all eligible ones if k <= 0" is only observable above the default
func H_C01_flat_many() {
	kind := vMetrics[vChoose("metric", 3)]
	idx, err := NewFlatIndex(2, kind)
	vAssert(err == nil, "constructor")
	m := vNewRef(kind)
	for i := 0; i < 12; i++ {
		vAddBoth(idx, m, uint32(40-3*i), []float32{float32(i%5) + 0.5, float32(i/3) - 1.25})
	}
	vRemoveBoth(idx, m, 40-3*4)
	if vChoose("flush", 2) == 1 {
		vFlushBoth(idx, m)
	}
	q := []float32{1.75, 0.5}
	k := vInt("k")
	th := vF32("th")
	vAssume(th >= 0)
	var filt []uint32
	if vChoose("filt", 2) == 1 {
		for i := 0; i < 12; i++ {
			if i != 2 {
				filt = append(filt, uint32(40-3*i))
			}
		}
	}
	s := idx.NewSearch().WithQuery(q).WithThreshold(th).WithDocumentIDs(filt...)
	if vChoose("call_with_k", 2) == 1 {
		s = s.WithK(k)
	} else {
		k = 10 // the documented default
	}
	res, serr := s.Execute()
	vAssert(serr == nil, "search-ok")
	pq, _ := m.dist.Preprocess(vCopy(q))
	vCheckExact(res, m.eligible(pq, th, filt), k)
	if len(res) > 10 {
		vCover("more-than-default-k")
	}
}

func init() { vHarnesses["H_C01_flat_masks"] = H_C01_flat_masks }

// seven stored vectors (ids out of insertion order), ANY subset of them removed (128 masks), Flush, one more Add
// (a fresh id, or an update of a removed id), another Flush: the answer is exact before the flush, after it, after
// the later Add and after the second flush — every pattern of holes, incl. runs of removed slots at the end, meets
// the compaction code; symbolic query coordinate, k over all of int
func H_C01_flat_masks() {
	kind := []DistanceKind{L2Squared, Cosine}[vChoose("metric", 2)]
	idx, err := NewFlatIndex(2, kind)
	vAssert(err == nil, "constructor")
	m := vNewRef(kind)
	ids := []uint32{7, 3, 12, 5, 9, 2, 11}
	for i, id := range ids {
		vAddBoth(idx, m, id, []float32{float32(i%4) + 0.5, float32(i/2) - 1.25})
	}
	mask := vChoose("removed_mask", 128)
	for i, id := range ids {
		if mask&(1<<uint(i)) != 0 {
			vRemoveBoth(idx, m, id)
		}
	}
	q := []float32{1.25, 0.5}
	k := vInt("k")
	check := func(label string) {
		res, serr := idx.NewSearch().WithQuery(vCopy(q)).WithK(k).Execute()
		vAssert(serr == nil, label+"-search-ok")
		vTag("at=" + label)
		pq, _ := m.dist.Preprocess(vCopy(q))
		vCheckExact(res, m.eligible(pq, 0, nil), k)
	}
	check("before-flush")
	vFlushBoth(idx, m)
	check("after-flush")
	newID := uint32(42)
	if vChoose("later_add_is_an_update", 2) == 1 {
		for i, id := range ids {
			if mask&(1<<uint(i)) != 0 {
				newID = id
				break
			}
		}
	}
	vAddBoth(idx, m, newID, []float32{1, 1})
	check("after-later-add")
	if mask != 0 {
		// one more removal behind the compacted storage, and a second flush
		for i := len(ids) - 1; i >= 0; i-- {
			if mask&(1<<uint(i)) == 0 {
				vRemoveBoth(idx, m, ids[i])
				break
			}
		}
		check("after-second-removal")
		vFlushBoth(idx, m)
		check("after-second-flush")
	}
	vCover("ran")
}

func init() { vHarnesses["H_C01_flat_filter_reuse"] = H_C01_flat_filter_reuse }

// id restrictions of very different sizes one after the other on the flat index (pooled restriction objects):
// see hFilterReuse
func H_C01_flat_filter_reuse() { hFilterReuse(vKFlat) }
