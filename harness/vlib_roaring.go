//go:build verif

package comet

import "github.com/RoaringBitmap/roaring"

func vNewBitmap() *roaring.Bitmap { return roaring.New() }
