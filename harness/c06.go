//go:build verif

package comet

import (
	"errors"
	"io"
)

// C06 — writes are all-or-nothing, removals are total, remove+add updates a document.

func init() {
	vHarnesses["H_C06_failed_add"] = H_C06_failed_add
	vHarnesses["H_C06_ids"] = H_C06_ids
	vHarnesses["H_C06_remove"] = H_C06_remove
	vHarnesses["H_C06_readd_vector"] = H_C06_readd_vector
	vHarnesses["H_C06_readd_text"] = H_C06_readd_text
	vHarnesses["H_C06_readd_meta"] = H_C06_readd_meta
	vHarnesses["H_C06_readd_hybrid"] = H_C06_readd_hybrid
}

// a TextIndex that fails Add on demand (BM25's own Add cannot fail)
type vFailingText struct {
	inner *BM25SearchIndex
	fail  bool
}

func (t *vFailingText) Add(id uint32, text string) error {
	if t.fail {
		return errors.New("injected text failure")
	}
	return t.inner.Add(id, text)
}
func (t *vFailingText) Remove(id uint32) error               { return t.inner.Remove(id) }
func (t *vFailingText) NewSearch() TextSearch               { return t.inner.NewSearch() }
func (t *vFailingText) Flush() error                        { return t.inner.Flush() }
func (t *vFailingText) WriteTo(w io.Writer) (int64, error)  { return t.inner.WriteTo(w) }
func (t *vFailingText) ReadFrom(r io.Reader) (int64, error) { return t.inner.ReadFrom(r) }

// the observable state of a hybrid index: answers of a fixed battery of searches
// through the hybrid index and through each sub-index
type vBattery struct {
	vec, txt, meta, hyb []uint32
}

func vIDsOfVec(rs []VectorResult) []uint32 {
	var o []uint32
	for _, r := range rs {
		o = append(o, r.GetId())
	}
	return o
}

func vRunBattery(h HybridSearchIndex, dim int) vBattery {
	var b vBattery
	q := make([]float32, dim)
	q[0] = 0.5
	if vi := h.VectorIndex(); vi != nil {
		rs, err := vi.NewSearch().WithQuery(vCopy(q)).WithK(0).Execute()
		vAssert(err == nil, "battery-vector-ok")
		b.vec = vIDsOfVec(rs)
	}
	if ti := h.TextIndex(); ti != nil {
		for _, w := range []string{"fox", "dog", "new"} {
			rs, err := ti.NewSearch().WithQuery(w).WithK(0).Execute()
			vAssert(err == nil, "battery-text-ok")
			b.txt = append(b.txt, 1000)
			for _, r := range rs {
				b.txt = append(b.txt, r.Id)
			}
		}
	}
	if mi := h.MetadataIndex(); mi != nil {
		for _, f := range []Filter{Eq("c", "x"), Eq("c", "new"), Exists("c"), Exists("bad"), Exists("n")} {
			rs, err := mi.NewSearch().WithFilters(f).Execute()
			vAssert(err == nil, "battery-metadata-ok")
			b.meta = append(b.meta, 1000)
			for _, r := range rs {
				b.meta = append(b.meta, r.GetId())
			}
		}
		rs, err := mi.NewSearch().Execute()
		vAssert(err == nil, "battery-metadata-ok")
		b.meta = append(b.meta, 2000)
		for _, r := range rs {
			b.meta = append(b.meta, r.GetId())
		}
	}
	hr, err := h.NewSearch().WithVector(vCopy(q)).WithText("fox").WithK(10).Execute()
	if err == nil {
		for _, r := range hr {
			b.hyb = append(b.hyb, r.ID)
		}
	}
	return b
}

func vSameIDs(a, b []uint32) bool {
	if len(a) != len(b) {
		return false
	}
	for i := range a {
		if a[i] != b[i] {
			return false
		}
	}
	return true
}

func vContains(a []uint32, id uint32) bool {
	for _, x := range a {
		if x == id {
			return true
		}
	}
	return false
}

func vSameBattery(a, b vBattery, label string) {
	vAssert(vSameIDs(a.vec, b.vec), label+"-vector-unchanged")
	vAssert(vSameIDs(a.txt, b.txt), label+"-text-unchanged")
	vAssert(vSameIDs(a.meta, b.meta), label+"-metadata-unchanged")
	vAssert(vSameIDs(a.hyb, b.hyb), label+"-hybrid-unchanged")
}

type vTier string
type vTicks int64

// a hybrid Add that fails in the 1st, 2nd or 3rd sub-index leaves every modality unchanged
func H_C06_failed_add() {
	metric := []DistanceKind{L2Squared, Cosine}[vChoose("metric", 2)]
	flat, _ := NewFlatIndex(2, metric)
	txt := &vFailingText{inner: NewBM25SearchIndex()}
	h := NewHybridSearchIndex(flat, txt, NewRoaringMetadataIndex())
	vAssert(h.AddWithID(5, []float32{1, 0}, "tick tick fox dog", map[string]interface{}{"c": "x", "n": 3}) == nil, "add-ok")
	vAssert(h.AddWithID(3, []float32{0, 2}, "fox", map[string]interface{}{"c": "y"}) == nil, "add-ok")
	before := vRunBattery(h, 2)
	vec := []float32{3, 4}
	text := "new fox"
	meta := map[string]interface{}{"c": "new", "n": 7}
	where := vChoose("fails_in", 4)
	switch where {
	case 0:
		vec = []float32{1, 2, 3} // wrong dimension
		vTag("fails=vector-dimension")
	case 1:
		if metric != Cosine {
			vAssume(false)
		}
		vec = []float32{0, 0} // zero vector under cosine
		vTag("fails=vector-zero")
	case 2:
		txt.fail = true
		vTag("fails=text")
	case 3:
		var bad interface{} = []int{1} // unsupported value types
		switch vChoose("bad_type", 6) {
		case 1:
			bad = float32(1.5)
		case 2:
			bad = int32(3)
		case 3:
			bad = uint8(1)
		case 4:
			bad = vTier("gold") // named types over a supported kind are not the supported types themselves
		case 5:
			bad = vTicks(5)
		}
		meta = map[string]interface{}{"bad": bad, "c": "new", "n": 7} // "bad" sorts before the supported keys; "zbad" after
		if vChoose("bad_key_last", 2) == 1 {
			meta = map[string]interface{}{"c": "new", "n": 7, "zbad": bad}
		}
		vTag("fails=metadata")
	}
	var err error
	failedID := uint32(9)
	switch vChoose("with_id", 3) {
	case 1:
		err = h.AddWithID(9, vec, text, meta)
	case 2:
		// AddWithID on an id that is already live, rejected by the FIRST sub-index (nothing was added
		// anywhere): the live document must be untouched.  (Failures in a later sub-index on a live id
		// are outside the property: ids are distinct except for reuse after removal.)
		if where > 1 {
			vAssume(false)
		}
		failedID = 3
		err = h.AddWithID(3, vec, text, meta)
		vTag("failed-add-on-live-id")
	default:
		// automatic ids come from a package-level counter: start it well above the explicit ids 3, 5, 9 used here
		// (a native replay process has run other harnesses before, the counter may sit anywhere)
		nodeIDCounter = 1000
		failedID, err = h.Add(vec, text, meta)
	}
	vAssert(err != nil, "injected-failure-reported")
	txt.fail = false
	after := vRunBattery(h, 2)
	vSameBattery(before, after, "failed-add")
	if failedID == 3 {
		// the live document 3 is still removable, exactly once, from every modality
		vAssert(h.Remove(3) == nil, "live-document-still-removable-after-failed-add")
		b := vRunBattery(h, 2)
		vAssert(!vContains(b.vec, 3) && !vContains(b.txt, 3) && !vContains(b.meta, 3), "removed-after-failed-add-unfindable")
		vAssert(h.Remove(3) != nil, "second-remove-is-error")
		vCover("ran")
		return
	}
	vAssert(h.Remove(failedID) != nil, "failed-add-leaves-no-record-remove-is-error")
	vSameBattery(before, vRunBattery(h, 2), "failed-remove")
	// and the index keeps working
	vAssert(h.AddWithID(9, []float32{3, 4}, "new fox", map[string]interface{}{"c": "new"}) == nil, "add-after-failure-ok")
	b3 := vRunBattery(h, 2)
	vAssert(vContains(b3.vec, 9) && vContains(b3.txt, 9) && vContains(b3.meta, 9), "added-document-findable-everywhere")
	vCover("ran")
}

// ids strictly increase: one inductive step from an arbitrary counter value for
// the node constructors (one atomic add each); the hybrid Add on top of them for
// concrete counter values (document ids are map keys and stay concrete)
func H_C06_ids() {
	if vChoose("level", 2) == 0 {
		c := vU32("counter")
		vAssume(c < 4294967000) // wrap-around after 2^32 ids is outside
		nodeIDCounter = c
		n1 := NewVectorNode([]float32{1})
		n2 := NewMetadataNode(nil)
		n3 := NewVectorNode(nil)
		vAssert(n1.ID() > c, "id-above-every-earlier-id")
		vAssert(n2.ID() > n1.ID() && n3.ID() > n2.ID(), "ids-strictly-increase-across-node-kinds")
		vCover("inductive-step")
		return
	}
	c := []uint32{0, 41, 2147483647}[vChoose("counter", 3)]
	nodeIDCounter = c
	flat, _ := NewFlatIndex(1, L2Squared)
	h := NewHybridSearchIndex(flat, NewBM25SearchIndex(), NewRoaringMetadataIndex())
	id1, e1 := h.Add([]float32{1}, "fox", nil)
	_, e0 := h.Add([]float32{1, 2}, "fox", nil) // fails (dimension): consumes an id at most, never reuses one
	id2, e2 := h.Add([]float32{2}, "", map[string]interface{}{"c": "x"})
	vAssert(e1 == nil && e2 == nil && e0 != nil, "add-ok")
	vAssert(id1 > c && id2 > id1, "hybrid-add-ids-strictly-increase")
	vCover("hybrid")
}

// Remove makes the document unfindable in all modalities, before and after Flush;
// unknown / already removed ids fail without effect
func H_C06_remove() {
	flat, _ := NewFlatIndex(2, L2Squared)
	h := NewHybridSearchIndex(flat, NewBM25SearchIndex(), NewRoaringMetadataIndex())
	// documents with every subset of modalities
	vAssert(h.AddWithID(5, []float32{1, 0}, "tick tick fox dog", map[string]interface{}{"c": "x"}) == nil, "add-ok")
	vAssert(h.AddWithID(3, []float32{0, 2}, "", nil) == nil, "add-ok")
	vAssert(h.AddWithID(9, nil, "fox", nil) == nil, "add-ok")
	vAssert(h.AddWithID(2, nil, "", map[string]interface{}{"c": "x", "n": 1}) == nil, "add-ok")
	vAssert(h.AddWithID(7, []float32{2, 2}, "dog", map[string]interface{}{"c": "y"}) == nil, "add-ok")
	target := []uint32{5, 3, 9, 2, 77}[vChoose("target", 5)]
	before := vRunBattery(h, 2)
	err := h.Remove(target)
	if target == 77 {
		vAssert(err != nil, "remove-unknown-is-error")
		vSameBattery(before, vRunBattery(h, 2), "failed-remove")
		vCover("unknown")
		return
	}
	vAssert(err == nil, "remove-ok")
	for pass := 0; pass < 2; pass++ {
		b := vRunBattery(h, 2)
		vAssert(!vContains(b.vec, target), "removed-not-in-vector-results")
		vAssert(!vContains(b.txt, target), "removed-not-in-text-results")
		vAssert(!vContains(b.meta, target), "removed-not-in-metadata-results")
		vAssert(!vContains(b.hyb, target), "removed-not-in-hybrid-results")
		vAssert(vContains(b.vec, 7) && vContains(b.txt, 7) && vContains(b.meta, 7), "others-stay-findable")
		if pass == 0 {
			bb := vRunBattery(h, 2)
			vAssert(h.Remove(target) != nil, "second-remove-is-error")
			vSameBattery(bb, vRunBattery(h, 2), "failed-remove")
			vAssert(h.Flush() == nil, "flush-ok")
		}
	}
	vCover("removed")
}

// flush placement for remove + add: before the re-add, after it, both, none
func vFlushAt(pos int, f func() error) {
	if vChoose(vName("flush", pos), 2) == 1 {
		vAssert(f() == nil, "flush-ok")
		vTag(vName("flush", pos))
	}
}

// update = Remove(id) [Flush] Add(id, new) [Flush]: only the new content is findable — each vector index kind on its own
func H_C06_readd_vector() {
	kind := vChoose("kind", 5)
	vPQConcreteCB = true
	u := vMakeIndexC(kind, L2Squared, 1, 2, false) // ivf kinds: two cells (centroids 0 and 4): the update moves the vector to the other cell
	idx := u.idx
	add := func(id uint32, x float32) { vAssert(idx.Add(*NewVectorNodeWithID(id, []float32{x})) == nil, "add-ok") }
	// resident population: the updated document alone / with one other / among twelve (pending removals
	// are then a small fraction of the index)
	resident := []int{1, 2, 12}[vChoose("resident", 3)]
	vTag(vName("resident", resident))
	add(5, 1)
	for i := 1; i < resident; i++ {
		if i == 1 {
			add(3, 10)
		} else {
			add(uint32(100+i), float32(40+3*i))
		}
	}
	vFlushAt(0, idx.Flush)
	vAssert(idx.Remove(*NewVectorNodeWithID(5, nil)) == nil, "remove-ok")
	vFlushAt(1, idx.Flush)
	// the update: new content for id 5, far away (another cell for the ivf kinds) or next to the old content
	// (same cell, which still holds the soft-deleted old entry unless a flush came in between)
	newX := []float32{20, 2}[vChoose("new_content_at", 2)]
	add(5, newX)
	vFlushAt(2, idx.Flush)
	for pass := 0; pass < 2; pass++ {
		res, err := idx.NewSearch().WithQuery([]float32{newX + 1}).WithK(0).WithNProbes(0).Execute()
		vAssert(err == nil, "search-ok")
		n5 := 0
		for _, r := range res {
			if r.GetId() == 5 {
				n5++
				vAssert(r.Score < 4 || kind >= vKPQ, "new-content-found-not-old") // new content at distance 1, old at >= 4
			}
		}
		vAssert(n5 == 1, "re-added-id-findable-exactly-once")
		if kind != vKHNSW || resident <= 2 {
			vAssert(len(res) == resident, "all-documents-found")
		}
		if pass == 0 {
			vAssert(idx.Flush() == nil, "flush-ok")
		}
	}
	vCover("ran")
}

func init() { vHarnesses["H_C06_remove_many"] = H_C06_remove_many }

// six documents with every modality, ANY subset of them removed (64 masks), one Flush for all pending
// removals: before and after the flush every removed document is unfindable in every modality (through the
// hybrid index and in each sub-index) and every other document is still found
func H_C06_remove_many() {
	flat, _ := NewFlatIndex(1, L2Squared)
	txt := NewBM25SearchIndex()
	meta := NewRoaringMetadataIndex()
	h := NewHybridSearchIndex(flat, txt, meta)
	ids := []uint32{5, 3, 9, 2, 7, 4}
	for i, id := range ids {
		vAssert(h.AddWithID(id, []float32{float32(i)}, "fox "+vName("w", i), map[string]interface{}{"c": "x", "n": i}) == nil, "add-ok")
	}
	mask := vChoose("removed_mask", 64)
	for i, id := range ids {
		if mask&(1<<uint(i)) != 0 {
			vAssert(h.Remove(id) == nil, "remove-ok")
		}
	}
	check := func(label string) {
		rv, e1 := h.NewSearch().WithVector([]float32{2}).WithK(100).Execute()
		rt, e2 := h.NewSearch().WithText("fox").WithK(100).Execute()
		rm, e3 := h.NewSearch().WithMetadata(Eq("c", "x")).WithK(100).Execute()
		vAssert(e1 == nil && e2 == nil && e3 == nil, label+"-search-ok")
		sv, _ := flat.NewSearch().WithQuery([]float32{2}).WithK(0).Execute()
		st, _ := txt.NewSearch().WithQuery("fox").WithK(0).Execute()
		sm, _ := meta.NewSearch().WithFilters(Gte("n", 0)).Execute()
		var tv, tt, tm []uint32
		for _, r := range sv {
			tv = append(tv, r.GetId())
		}
		for _, r := range st {
			tt = append(tt, r.Id)
		}
		for _, r := range sm {
			tm = append(tm, r.GetId())
		}
		for i, id := range ids {
			gone := mask&(1<<uint(i)) != 0
			for li, got := range [][]uint32{vIDsOfHybrid(rv), vIDsOfHybrid(rt), vIDsOfHybrid(rm), tv, tt, tm} {
				via := []string{"hybrid-vector", "hybrid-text", "hybrid-metadata", "vector-index", "text-index", "metadata-index"}[li]
				if gone {
					vAssert(!vContains(got, id), label+"-removed-document-unfindable-via-"+via)
				} else {
					vAssert(vContains(got, id), label+"-other-documents-still-found-via-"+via)
				}
			}
		}
	}
	// the same with a k below the number of matches (the bounded top-k paths of the searches): no removed document
	// takes one of the k places, and the places are filled as long as live matches exist
	checkSmallK := func(label string) {
		live := 0
		for i := range ids {
			if mask&(1<<uint(i)) == 0 {
				live++
			}
		}
		for k := 1; k <= 3; k++ {
			rt, e1 := txt.NewSearch().WithQuery("fox").WithK(k).Execute()
			rv, e2 := flat.NewSearch().WithQuery([]float32{2}).WithK(k).Execute()
			ht, e3 := h.NewSearch().WithText("fox").WithK(k).Execute()
			vAssert(e1 == nil && e2 == nil && e3 == nil, label+"-search-ok")
			var tt, tv []uint32
			for _, r := range rt {
				tt = append(tt, r.Id)
			}
			for _, r := range rv {
				tv = append(tv, r.GetId())
			}
			want := k
			if live < k {
				want = live
			}
			for li, got := range [][]uint32{tt, tv, vIDsOfHybrid(ht)} {
				via := []string{"text-index", "vector-index", "hybrid-text"}[li]
				vAssert(len(got) == want, label+"-small-k-places-filled-with-live-documents-via-"+via)
				for i, id := range ids {
					if mask&(1<<uint(i)) != 0 {
						vAssert(!vContains(got, id), label+"-removed-document-unfindable-with-small-k-via-"+via)
					}
				}
			}
		}
	}
	check("before-flush")
	checkSmallK("before-flush")
	vAssert(h.Flush() == nil, "flush-ok")
	check("after-flush")
	checkSmallK("after-flush")
	vAssert(flat.Flush() == nil && txt.Flush() == nil && meta.Flush() == nil, "flush-ok")
	check("after-sub-index-flushes")
	vCover("ran")
}

func H_C06_readd_text() {
	ix := NewBM25SearchIndex()
	vAssert(ix.Add(5, "tick tick fox dog") == nil && ix.Add(3, "dog") == nil, "add-ok")
	vFlushAt(0, ix.Flush)
	vAssert(ix.Remove(5) == nil, "remove-ok")
	vFlushAt(1, ix.Flush)
	// the new content: other words, the very same text again, or a text that only differs in case / width (same tokens)
	newText := []string{"new cat", "tick tick fox dog", "Tick TICK Ｆｏｘ dog"}[vChoose("new_text", 3)]
	newWord, oldWord := "cat", "fox"
	if newText != "new cat" {
		newWord, oldWord = "fox", "emu"
	}
	vAssert(ix.Add(5, newText) == nil, "re-add-ok")
	vFlushAt(2, ix.Flush)
	for pass := 0; pass < 2; pass++ {
		rNew, e1 := ix.NewSearch().WithQuery(newWord).WithK(0).Execute()
		rOld, e2 := ix.NewSearch().WithQuery(oldWord).WithK(0).Execute()
		vAssert(e1 == nil && e2 == nil, "search-ok")
		vAssert(len(rNew) == 1 && rNew[0].Id == 5, "new-text-findable")
		vAssert(len(rOld) == 0, "old-text-not-findable")
		if pass == 0 {
			vAssert(ix.Flush() == nil, "flush-ok")
		}
	}
	corpus := map[uint32]*vCorpusDoc{5: {toks: tokenize(normalize(newText))}, 3: {toks: tokenize(normalize("dog"))}}
	vBM25Inv(ix, corpus)
	vCover("ran")
}

func H_C06_readd_meta() {
	mi := NewRoaringMetadataIndex()
	vAssert(mi.Add(*NewMetadataNodeWithID(5, map[string]interface{}{"c": "x", "n": 1})) == nil, "add-ok")
	vAssert(mi.Add(*NewMetadataNodeWithID(3, map[string]interface{}{"c": "x"})) == nil, "add-ok")
	vAssert(mi.Remove(*NewMetadataNodeWithID(5, nil)) == nil, "remove-ok")
	vFlushAt(1, mi.Flush)
	vAssert(mi.Add(*NewMetadataNodeWithID(5, map[string]interface{}{"c": "new"})) == nil, "re-add-ok")
	ids := func(f Filter) []uint32 {
		rs, err := mi.NewSearch().WithFilters(f).Execute()
		vAssert(err == nil, "search-ok")
		var o []uint32
		for _, r := range rs {
			o = append(o, r.GetId())
		}
		return o
	}
	vAssert(vSameIDs(ids(Eq("c", "new")), []uint32{5}), "new-metadata-findable")
	vAssert(vSameIDs(ids(Eq("c", "x")), []uint32{3}), "old-metadata-not-findable")
	vAssert(len(ids(Exists("n"))) == 0, "old-numeric-field-gone")
	vCover("ran")
}

func H_C06_readd_hybrid() {
	kind := vChoose("kind", 2) // flat, hnsw under the hybrid
	u := vMakeIndex(kind, L2Squared, 2, 1)
	h := NewHybridSearchIndex(u.idx, NewBM25SearchIndex(), NewRoaringMetadataIndex())
	vAssert(h.AddWithID(5, []float32{1, 0}, "tick tick fox dog", map[string]interface{}{"c": "x"}) == nil, "add-ok")
	vAssert(h.AddWithID(3, []float32{0, 2}, "dog", map[string]interface{}{"c": "x"}) == nil, "add-ok")
	vFlushAt(0, h.Flush)
	vAssert(h.Remove(5) == nil, "remove-ok")
	vFlushAt(1, h.Flush)
	vAssert(h.AddWithID(5, []float32{9, 9}, "new cat", map[string]interface{}{"c": "new"}) == nil, "re-add-ok")
	vFlushAt(2, h.Flush)
	for pass := 0; pass < 2; pass++ {
		hv, e1 := h.NewSearch().WithVector([]float32{9, 9}).WithK(1).Execute()
		vAssert(e1 == nil && len(hv) == 1 && hv[0].ID == 5, "new-vector-findable-through-hybrid")
		ht, e2 := h.NewSearch().WithText("cat").WithK(5).Execute()
		vAssert(e2 == nil && len(ht) == 1 && ht[0].ID == 5, "new-text-findable-through-hybrid")
		ho, e3 := h.NewSearch().WithText("fox").WithK(5).Execute()
		vAssert(e3 == nil && len(ho) == 0, "old-text-not-findable-through-hybrid")
		hm, e4 := h.NewSearch().WithMetadata(Eq("c", "new")).WithK(5).Execute()
		vAssert(e4 == nil && len(hm) == 1 && hm[0].ID == 5, "new-metadata-findable-through-hybrid")
		hx, e5 := h.NewSearch().WithMetadata(Eq("c", "x")).WithK(5).Execute()
		vAssert(e5 == nil && len(hx) == 1 && hx[0].ID == 3, "old-metadata-not-findable-through-hybrid")
		if pass == 0 {
			vAssert(h.Flush() == nil, "flush-ok")
		}
	}
	vCover("ran")
}

func init() { vHarnesses["H_C06_either_or"] = H_C06_either_or }

// "either findable through every modality it supplied, or fails and leaves everything unchanged" on inputs where it
// is not obvious WHICH of the two the library chooses: non-finite and extreme float metadata, extreme integers,
// non-finite vector components, empty text / nil metadata, empty keys and values.  (One key carrying two value types
// across documents is outside: the property's documents are typed per field.)  Whatever
// Add answers, it has to stand by it.
func H_C06_either_or() {
	metric := []DistanceKind{L2Squared, Cosine}[vChoose("metric", 2)]
	flat, _ := NewFlatIndex(2, metric)
	h := NewHybridSearchIndex(flat, NewBM25SearchIndex(), NewRoaringMetadataIndex())
	vAssert(h.AddWithID(5, []float32{1, 0}, "tick tick fox dog", map[string]interface{}{"c": "x", "n": 3}) == nil, "add-ok")
	vAssert(h.AddWithID(3, []float32{0, 2}, "fox", map[string]interface{}{"c": "y", "f": 1.5}) == nil, "add-ok")
	before := vRunBattery(h, 2)
	vec := []float32{3, 4}
	text := "new fox"
	meta := map[string]interface{}{"c": "new", "n": 7}
	inf := func(sign int) float64 {
		x := 1e308
		return x * 10 * float64(sign)
	}
	nan := inf(1) - inf(1)
	switch vChoose("odd", 12) {
	case 0:
		meta = map[string]interface{}{"c": "new", "f": nan, "n": 7}
	case 1:
		meta = map[string]interface{}{"c": "new", "f": inf(1), "n": 7}
	case 2:
		meta = map[string]interface{}{"a": inf(-1), "c": "new"}
	case 3:
		meta = map[string]interface{}{"c": "new", "f": 1e300} // finite, far outside the fixed-point range
	case 4:
		meta = map[string]interface{}{"c": "new", "n": int64(-9223372036854775808)}
	case 5:
		meta = map[string]interface{}{"c": "new", "n": int64(9223372036854775807)}
	case 6:
		meta = map[string]interface{}{"c": "", "": "x"} // empty value, empty key
	case 7:
		meta = map[string]interface{}{"c": "new", "z": nil}
	case 8:
		vec = []float32{float32(nan), 1}
	case 9:
		vec = []float32{float32(inf(1)), 1}
	case 10:
		text, meta = "", nil
	case 11:
		vec, meta = nil, map[string]interface{}{"c": "new"}
	}
	var err error
	id := uint32(9)
	if vChoose("with_id", 2) == 1 {
		err = h.AddWithID(9, vec, text, meta)
	} else {
		nodeIDCounter = 1000
		id, err = h.Add(vec, text, meta)
	}
	after := vRunBattery(h, 2)
	if err != nil {
		vSameBattery(before, after, "refused-add")
		vAssert(h.Remove(id) != nil, "refused-add-leaves-no-record-remove-is-error")
		vSameBattery(before, vRunBattery(h, 2), "failed-remove")
		vCover("refused")
		return
	}
	// accepted: findable through every modality it supplied
	if vec != nil {
		// (a non-finite vector has no distance to rank by: only finite ones must be found by the vector search)
		fin := true
		for _, x := range vec {
			if x != x || x > 3e38 || x < -3e38 {
				fin = false
			}
		}
		if fin {
			vAssert(vContains(after.vec, id), "accepted-add-findable-by-vector")
		}
	}
	if text != "" {
		vAssert(vContains(after.txt, id), "accepted-add-findable-by-text")
	}
	if meta != nil {
		rs, e := h.MetadataIndex().NewSearch().Execute()
		vAssert(e == nil, "metadata-ok")
		found := false
		for _, r := range rs {
			if r.GetId() == id {
				found = true
			}
		}
		vAssert(found, "accepted-add-listed-by-metadata")
		for key := range meta {
			rs, e := h.MetadataIndex().NewSearch().WithFilters(Exists(key)).Execute()
			vAssert(e == nil, "metadata-ok")
			found := false
			for _, r := range rs {
				if r.GetId() == id {
					found = true
				}
			}
			vAssert(found, "accepted-add-findable-by-each-metadata-key")
		}
	}
	// and removable exactly once, from everywhere
	vAssert(h.Remove(id) == nil, "accepted-add-removable")
	b := vRunBattery(h, 2)
	vAssert(!vContains(b.vec, id) && !vContains(b.txt, id) && !vContains(b.meta, id), "removed-unfindable")
	vAssert(h.Remove(id) != nil, "second-remove-is-error")
	vCover("accepted")
}
