//go:build verif

package comet

import "io"

// C07 — serialising and reloading any index preserves every search answer.
// C16 shares the stream helpers below.

func init() {
	vHarnesses["H_C07_vector"] = H_C07_vector
	vHarnesses["H_C07_vector_flat"] = H_C07_vector_flat
	vHarnesses["H_C07_vector_hnsw"] = H_C07_vector_hnsw
	vHarnesses["H_C07_vector_ivf"] = H_C07_vector_ivf
	vHarnesses["H_C07_vector_pq"] = H_C07_vector_pq
	vHarnesses["H_C07_vector_ivfpq"] = H_C07_vector_ivfpq
	vHarnesses["H_C07_text"] = H_C07_text
	vHarnesses["H_C07_meta"] = H_C07_meta
	vHarnesses["H_C07_hybrid"] = H_C07_hybrid
}

// vBuf: a byte stream (writer and reader) over a slice; limit < 0: unlimited,
// otherwise reads stop with io.EOF after limit bytes (a truncated stream)
type vBuf struct {
	b     []byte
	pos   int
	limit int
	chunk int // > 0: one Read call delivers at most this many bytes (a legal io.Reader: pipes, sockets, decompressors)
}

// vBufChunk is the chunk size given to every stream created from now on (0: a Read fills the whole buffer)
var vBufChunk int

func vNewBuf() *vBuf { return &vBuf{limit: -1, chunk: vBufChunk} }

// vPickReaderChunk: the harness runs once with readers that fill every buffer and once with readers that deliver
// three bytes per call
func vPickReaderChunk() {
	vBufChunk = []int{0, 3}[vChoose("reader_delivers_short_reads", 2)]
}

func (w *vBuf) Write(p []byte) (int, error) {
	w.b = append(w.b, p...)
	return len(p), nil
}

func (r *vBuf) Read(p []byte) (int, error) {
	end := len(r.b)
	if r.limit >= 0 && r.limit < end {
		end = r.limit
	}
	if r.pos >= end {
		return 0, io.EOF
	}
	if r.chunk > 0 && len(p) > r.chunk {
		p = p[:r.chunk]
	}
	n := copy(p, r.b[r.pos:end])
	r.pos += n
	return n, nil
}

// vFreshLike: a freshly constructed (empty, untrained) index with the same parameters
func vFreshLike(kind int, metric DistanceKind, dim, nlist int) VectorIndex {
	pqM, pqNbits := dim, 1
	if vPQM > 0 {
		pqM = vPQM
	}
	if vPQNbits > 0 {
		pqNbits = vPQNbits
	}
	var idx VectorIndex
	var err error
	switch kind {
	case vKFlat:
		idx, err = NewFlatIndex(dim, metric)
	case vKHNSW:
		idx, err = NewHNSWIndex(dim, metric, 2, 8, 8)
	case vKIVF:
		idx, err = NewIVFIndex(dim, nlist, metric)
	case vKPQ:
		idx, err = NewPQIndex(dim, metric, pqM, pqNbits)
	case vKIVFPQ:
		idx, err = NewIVFPQIndex(dim, metric, nlist, pqM, pqNbits)
	}
	vAssert(err == nil, "constructor")
	return idx
}

// ids stored anywhere in a vector index (read in-package) and its pending soft deletes
func vStoredIDs(idx VectorIndex) (ids []uint32, pendingDeletes int) {
	switch x := idx.(type) {
	case *FlatIndex:
		for _, v := range x.vectors {
			ids = append(ids, v.ID())
		}
		pendingDeletes = int(x.deletedNodes.GetCardinality())
	case *HNSWIndex:
		for id, n := range x.nodes {
			ids = append(ids, id)
			for _, l := range n.Edges {
				ids = append(ids, l...)
			}
		}
		pendingDeletes = int(x.deletedNodes.GetCardinality())
	case *IVFIndex:
		for _, l := range x.lists {
			for _, v := range l {
				ids = append(ids, v.ID())
			}
		}
		pendingDeletes = int(x.deletedNodes.GetCardinality())
	case *PQIndex:
		for _, v := range x.vectorNodes {
			ids = append(ids, v.ID())
		}
		pendingDeletes = int(x.deletedNodes.GetCardinality())
	case *IVFPQIndex:
		for _, l := range x.lists {
			for _, v := range l {
				ids = append(ids, v.Node.ID())
			}
		}
		pendingDeletes = int(x.deletedNodes.GetCardinality())
	}
	return
}

// vRoundTrip writes src, appends a sentinel, reads into dst: byte counts and exact consumption
func vRoundTrip(src io.WriterTo, dst io.ReaderFrom) bool {
	buf := vNewBuf()
	n, err := src.WriteTo(buf)
	vAssert(err == nil, "write-ok")
	vAssert(int(n) == len(buf.b), "write-count-equals-stream-length")
	total := len(buf.b)
	buf.b = append(buf.b, 0xAB, 0xCD, 0xEF) // the next index's bytes would follow here
	m, rerr := dst.ReadFrom(buf)
	vAssert(rerr == nil, "read-ok")
	if rerr != nil {
		return false
	}
	vAssert(int(m) == total, "read-count-equals-stream-length")
	vAssert(buf.pos == total, "read-consumes-exactly-its-own-bytes")
	return true
}

func H_C07_vector()       { hC07Vector(vChoose("kind", 5)) }
func H_C07_vector_flat()  { hC07Vector(vKFlat) }
func H_C07_vector_hnsw()  { hC07Vector(vKHNSW) }
func H_C07_vector_ivf()   { hC07Vector(vKIVF) }
func H_C07_vector_pq()    { hC07Vector(vKPQ) }
func H_C07_vector_ivfpq() { hC07Vector(vKIVFPQ) }

func hC07Vector(kind int) {
	vPickReaderChunk()
	defer func() { vBufChunk = 0 }()
	metric := []DistanceKind{L2Squared, Cosine, Euclidean}[vChoose("metric", 3)]
	dim := 2
	nlist := 1
	if kind == vKIVF || kind == vKIVFPQ {
		nlist = 2
	}
	vPQM, vPQNbits = 2, 1
	vPQConcreteCB = true
	state := vChoose("state", 4) // 0 empty (untrained for the trained kinds), 1 trained+empty, 2 populated, 3 populated + one removed
	var src VectorIndex
	var u *vUT
	if state == 0 {
		src = vFreshLike(kind, metric, dim, nlist)
	} else {
		u = vMakeIndexC(kind, metric, dim, nlist, false)
		src = u.idx
	}
	if state >= 2 {
		for i := 0; i < 3; i++ {
			var v []float32
			if kind == vKFlat && i < 1 {
				v = vVec(vName("v", i), dim) // symbolic payload
				for _, x := range v {
					vAssume(vFinite32(x)) // finite vectors (a NaN distance has no rank: the answer would hang on map iteration order)
				}
			} else {
				v = vCopy(vConcreteVecs[i])
			}
			vAddBoth(src, u.m, vIDs[i], v)
		}
	}
	removed := uint32(0)
	if state == 3 {
		removed = vIDs[2]
		vRemoveBoth(src, u.m, removed)
	}
	var q []float32
	if kind == vKFlat {
		q = vVec("q", dim)
		for _, x := range q {
			vAssume(vFinite32(x))
		}
	} else {
		q = vCopy([][]float32{{0.5, 0.25}, {4, 4}, {-1, 3}}[vChoose("query", 3)])
		if metric == Euclidean {
			vAssume(false) // trained kinds: l2sq and cosine
		}
	}
	k := []int{1, 10}[vChoose("k", 2)]
	search := func(idx VectorIndex) ([]VectorResult, error) {
		return idx.NewSearch().WithQuery(vCopy(q)).WithK(k).WithNProbes(0).Execute()
	}
	before, e0 := search(src)
	dst := vFreshLike(kind, metric, dim, nlist)
	if !vRoundTrip(src, dst) {
		return
	}
	// writing does not change what the source returns
	after, e1 := search(src)
	vAssert((e0 == nil) == (e1 == nil), "write-leaves-source-answers-error")
	if e0 == nil && e1 == nil {
		vSameResults(before, after, "write-leaves-source-answers")
	}
	// the reloaded index answers identically
	got, e2 := search(dst)
	vAssert((e1 == nil) == (e2 == nil), "reloaded-same-error")
	if e1 == nil && e2 == nil {
		vSameResults(after, got, "reloaded-same-answer")
	}
	vAssert(dst.Trained() == src.Trained(), "reloaded-trained-flag")
	// removed documents are absent from the stream
	ids, pend := vStoredIDs(dst)
	vAssert(pend == 0, "reloaded-no-pending-deletes")
	if removed != 0 {
		vAssert(!vContains(ids, removed), "removed-id-absent-from-stream")
	}
	// the reloaded index keeps working under further mutation
	if dst.Trained() {
		vAssert(dst.Add(*NewVectorNodeWithID(42, []float32{7, 7})) == nil, "reloaded-accepts-add")
		r2, e3 := dst.NewSearch().WithQuery([]float32{7, 7}).WithK(10).WithNProbes(0).Execute()
		vAssert(e3 == nil && vContains(vIDsOfVec(r2), 42), "reloaded-add-reflected")
		vAssert(dst.Remove(*NewVectorNodeWithID(42, nil)) == nil, "reloaded-accepts-remove")
		r3, e4 := dst.NewSearch().WithQuery([]float32{7, 7}).WithK(10).WithNProbes(0).Execute()
		vAssert(e4 == nil && !vContains(vIDsOfVec(r3), 42), "reloaded-remove-reflected")
		if state >= 2 && u.m.find(vIDs[0]) != nil {
			vAssert(dst.Remove(*NewVectorNodeWithID(vIDs[0], nil)) == nil, "reloaded-accepts-remove-of-loaded-doc")
			r4, e5 := dst.NewSearch().WithQuery([]float32{7, 7}).WithK(10).WithNProbes(0).Execute()
			vAssert(e5 == nil && !vContains(vIDsOfVec(r4), vIDs[0]), "reloaded-remove-of-loaded-doc-reflected")
		}
		vCover("trained-state")
	} else {
		vCover("untrained-state")
	}
}

func H_C07_text() {
	vPickReaderChunk()
	defer func() { vBufChunk = 0 }()
	src := NewBM25SearchIndex()
	n := vChoose("docs", 4)
	texts := []string{"tick tick fox dog", "Ｆｏｘ, DOG!", ""}
	for i := 0; i < n; i++ {
		src.Add(vIDs[i], texts[i])
	}
	removed := uint32(0)
	if n >= 2 && vChoose("remove", 2) == 1 {
		removed = vIDs[0]
		src.Remove(removed)
		vTag("pending-removal")
	}
	query := []string{"fox", "dog tick", "cat"}[vChoose("query", 3)]
	k := vInt("k")
	before, e0 := src.NewSearch().WithQuery(query).WithK(k).Execute()
	dst := NewBM25SearchIndex()
	if !vRoundTrip(src, dst) {
		return
	}
	after, e1 := src.NewSearch().WithQuery(query).WithK(k).Execute()
	got, e2 := dst.NewSearch().WithQuery(query).WithK(k).Execute()
	vAssert(e0 == nil && e1 == nil && e2 == nil, "search-ok")
	vAssert(len(before) == len(after) && len(after) == len(got), "same-answer-len")
	for i := range after {
		if i < len(got) && i < len(before) {
			vAssert(after[i].Id == got[i].Id && vSameF32(after[i].Score, got[i].Score), "reloaded-same-answer")
			vAssert(after[i].Id == before[i].Id && vSameF32(after[i].Score, before[i].Score), "write-leaves-source-answers")
		}
	}
	if removed != 0 {
		_, has := dst.docTokens[removed]
		vAssert(!has && dst.deletedDocs.IsEmpty(), "removed-id-absent-from-stream")
	}
	corpus := map[uint32]*vCorpusDoc{}
	for i := 0; i < n; i++ {
		if vIDs[i] != removed {
			corpus[vIDs[i]] = &vCorpusDoc{toks: tokenize(normalize(texts[i]))}
		}
	}
	vBM25Inv(dst, corpus)
	vAssert(dst.Add(42, "new cat") == nil, "reloaded-accepts-add")
	r, e := dst.NewSearch().WithQuery("cat").WithK(0).Execute()
	vAssert(e == nil && len(r) == 1 && r[0].Id == 42, "reloaded-add-reflected")
	if n > 0 && vIDs[0] != removed {
		vAssert(dst.Remove(vIDs[0]) == nil, "reloaded-accepts-remove")
		r2, _ := dst.NewSearch().WithQuery("tick").WithK(0).Execute()
		vAssert(len(r2) == 0, "reloaded-remove-reflected")
		// ... and after the physical purge: no trace of the removed document, same answers as the source
		// taken through the same continuation
		vAssert(dst.Flush() == nil, "reloaded-flush-ok")
		vAssert(src.Add(42, "new cat") == nil && src.Remove(vIDs[0]) == nil && src.Flush() == nil, "source-continuation-ok")
		for _, cq := range []string{"tick", "fox", "dog", "cat"} {
			a, ea := src.NewSearch().WithQuery(cq).WithK(0).Execute()
			b, eb := dst.NewSearch().WithQuery(cq).WithK(0).Execute()
			vAssert(ea == nil && eb == nil && len(a) == len(b), "continuation-same-answers")
			for i := range a {
				if i < len(b) {
					vAssert(a[i].Id == b[i].Id && vSameF32(a[i].Score, b[i].Score), "continuation-same-answers")
				}
			}
			for _, x := range b {
				vAssert(x.Id != vIDs[0], "purged-document-leaves-no-trace")
			}
		}
	}
	vCover("ran")
}

func H_C07_meta() {
	vPickReaderChunk()
	defer func() { vBufChunk = 0 }()
	docs := []*vDoc{
		{id: 5, hasS: true, s: "a", hasI: true, i: vI64("i0")},
		{id: 3, hasS: true, s: "", hasB: true, b: true, hasI: true, i: vI64("i1")},
		{id: 9, hasS: true, s: "a:b", hasF: true, f: 2.5},
	}
	n := vChoose("docs", 4)
	docs = docs[:n]
	src := vMetaIndex(docs)
	if n == 3 {
		if t := vChoose("remove", 4); t < 3 {
			vAssert(src.Remove(*NewMetadataNodeWithID(docs[t].id, nil)) == nil, "remove-ok")
			docs[t].live = false
		}
	}
	dst := NewRoaringMetadataIndex()
	if !vRoundTrip(src, dst) {
		return
	}
	c := vI64("c")
	for _, f := range []Filter{Eq("s", "a"), Lte("i", c), Exists("s"), NotExists("i"), Gt("f", 1.0)} {
		f := f
		if n == 0 && (f.Operator == OpLessThanOrEqual || f.Operator == OpGreaterThan) {
			continue
		}
		r1, e1 := src.NewSearch().WithFilters(f).Execute()
		r2, e2 := dst.NewSearch().WithFilters(f).Execute()
		vAssert((e1 == nil) == (e2 == nil), "reloaded-same-error")
		if e1 == nil && e2 == nil {
			vCheckIDs(r2, docs, func(d *vDoc) bool {
				in := false
				for _, r := range r1 {
					if r.GetId() == d.id {
						in = true
					}
				}
				return in
			}, "reloaded-same-answer")
		}
	}
	all, e := dst.NewSearch().Execute()
	vAssert(e == nil, "search-ok")
	vCheckIDs(all, docs, func(d *vDoc) bool { return true }, "reloaded-live-set")
	vAssert(dst.Add(*NewMetadataNodeWithID(42, map[string]interface{}{"s": "new"})) == nil, "reloaded-accepts-add")
	r, e3 := dst.NewSearch().WithFilters(Eq("s", "new")).Execute()
	vAssert(e3 == nil && len(r) == 1 && r[0].GetId() == 42, "reloaded-add-reflected")
	vCover("ran")
}

// hybrid: four writers, one concatenated reader
func H_C07_hybrid() {
	vPickReaderChunk()
	defer func() { vBufChunk = 0 }()
	kind := []int{vKFlat, vKHNSW, vKIVF}[vChoose("kind", 3)]
	withText := vChoose("with_text", 2) == 1
	withMeta := vChoose("with_meta", 2) == 1
	mk := func(trained bool) HybridSearchIndex {
		var vi VectorIndex
		if trained {
			vi = vMakeIndexC(kind, L2Squared, 2, 2, false).idx
		} else {
			vi = vFreshLike(kind, L2Squared, 2, 2)
		}
		var ti TextIndex
		var mi MetadataIndex
		if withText {
			ti = NewBM25SearchIndex()
		}
		if withMeta {
			mi = NewRoaringMetadataIndex()
		}
		return NewHybridSearchIndex(vi, ti, mi)
	}
	src := mk(true)
	vAssert(src.AddWithID(5, []float32{1, 0}, "tick tick fox dog", map[string]interface{}{"c": "x", "n": 3}) == nil, "add-ok")
	vAssert(src.AddWithID(3, []float32{0, 2}, "", map[string]interface{}{"c": "y"}) == nil, "add-ok")
	vAssert(src.AddWithID(9, nil, "dog", nil) == nil, "add-ok")
	if vChoose("remove", 2) == 1 {
		vAssert(src.Remove(5) == nil, "remove-ok")
	}
	hb, vb, tb, mb := vNewBuf(), vNewBuf(), vNewBuf(), vNewBuf()
	vAssert(src.WriteTo(hb, vb, tb, mb) == nil, "write-ok")
	// one contiguous stream: hybrid || vector || text || metadata || sentinel
	all := vNewBuf()
	all.b = append(all.b, hb.b...)
	all.b = append(all.b, vb.b...)
	all.b = append(all.b, tb.b...)
	all.b = append(all.b, mb.b...)
	total := len(all.b)
	all.b = append(all.b, 0xAB, 0xCD)
	dst := mk(false)
	_, rerr := dst.ReadFrom(all)
	vAssert(rerr == nil, "read-ok")
	if rerr != nil {
		return
	}
	vAssert(all.pos == total, "read-consumes-exactly-its-own-bytes")
	q := vVec("q", 2)
	check := func(a, b HybridSearchIndex, label string) {
		r1, e1 := a.NewSearch().WithVector(vCopy(q)).WithK(10).WithNProbes(2).Execute()
		r2, e2 := b.NewSearch().WithVector(vCopy(q)).WithK(10).WithNProbes(2).Execute()
		vAssert(e1 == nil && e2 == nil && len(r1) == len(r2), label+"-vector-len")
		for i := range r1 {
			if i < len(r2) {
				vAssert(vSameF64(r1[i].Score, r2[i].Score), label+"-vector-score")
			}
		}
		if withText {
			t1, e3 := a.NewSearch().WithText("dog").WithK(10).Execute()
			t2, e4 := b.NewSearch().WithText("dog").WithK(10).Execute()
			vAssert(e3 == nil && e4 == nil && len(t1) == len(t2), label+"-text-len")
			for i := range t1 {
				if i < len(t2) {
					vAssert(t1[i].ID == t2[i].ID && vSameF64(t1[i].Score, t2[i].Score), label+"-text")
				}
			}
		}
		if withMeta {
			m1, e5 := a.NewSearch().WithMetadata(Exists("c")).WithK(10).Execute()
			m2, e6 := b.NewSearch().WithMetadata(Exists("c")).WithK(10).Execute()
			vAssert(e5 == nil && e6 == nil && len(m1) == len(m2), label+"-metadata")
		}
	}
	check(src, dst, "reloaded-same-answer")
	// continuation: removals on the reloaded index reach every modality the document had
	vAssert(dst.Remove(3) == nil, "reloaded-accepts-remove")
	vAssert(src.Remove(3) == nil, "source-accepts-remove")
	check(src, dst, "after-remove-same-answer")
	if withMeta {
		m, e := dst.MetadataIndex().NewSearch().WithFilters(Eq("c", "y")).Execute()
		vAssert(e == nil && len(m) == 0, "reloaded-remove-reaches-metadata")
	}
	vAssert(dst.AddWithID(42, []float32{7, 7}, "new", map[string]interface{}{"c": "z"}) == nil, "reloaded-accepts-add")
	vCover("ran")
}

func init() { vHarnesses["H_C07_hnsw_graph"] = H_C07_hnsw_graph }

// HNSW with more than M neighbours on layer 0 (M=2, 9 vectors, up to 4 links each): the reloaded graph
// answers every narrow-beam query (efSearch 1..2, k=1, 12 query points and every stored node id) like the
// source does — an edge lost or reordered on the way shows as a different greedy walk
func H_C07_hnsw_graph() {
	metric := []DistanceKind{L2Squared, Cosine}[vChoose("metric", 2)]
	src, err := NewHNSWIndex(2, metric, 2, 8, 8)
	vAssert(err == nil, "constructor")
	pts := [][]float32{{0, 1}, {1, 0.5}, {2, 1.5}, {3, 0.25}, {4, 1}, {5, 2}, {1.5, 3}, {3.5, 3.5}, {0.5, 4}}
	for i, p := range pts {
		vAssert(src.Add(*NewVectorNodeWithID(uint32(10+i), vCopy(p))) == nil, "add-ok")
	}
	if vChoose("remove", 2) == 1 {
		vAssert(src.Remove(*NewVectorNodeWithID(13, nil)) == nil, "remove-ok")
		vTag("one-removed")
	}
	dst, _ := NewHNSWIndex(2, metric, 2, 8, 8)
	if !vRoundTrip(src, dst) {
		return
	}
	many := 0
	for _, n := range dst.nodes {
		if len(n.Edges) > 0 && len(n.Edges[0]) > 2 {
			many++
		}
	}
	if many > 0 {
		vCover("more-than-M-links-on-layer-0")
	}
	for ef := 1; ef <= 2; ef++ {
		for qi := 0; qi < 12; qi++ {
			q := []float32{float32(qi%4)*1.5 + 0.25, float32(qi/4)*1.75 + 0.5}
			a, e1 := src.NewSearch().WithQuery(vCopy(q)).WithK(1).WithEfSearch(ef).Execute()
			b, e2 := dst.NewSearch().WithQuery(vCopy(q)).WithK(1).WithEfSearch(ef).Execute()
			vAssert((e1 == nil) == (e2 == nil), "reloaded-same-error")
			if e1 == nil && e2 == nil {
				vSameResults(a, b, "reloaded-same-answer-narrow-beam")
			}
		}
		for i := range pts {
			a, e1 := src.NewSearch().WithNode(uint32(10 + i)).WithK(2).WithEfSearch(ef).Execute()
			b, e2 := dst.NewSearch().WithNode(uint32(10 + i)).WithK(2).WithEfSearch(ef).Execute()
			vAssert((e1 == nil) == (e2 == nil), "reloaded-same-error-node-query")
			if e1 == nil && e2 == nil {
				vSameResults(a, b, "reloaded-same-answer-node-query")
			}
		}
	}
	vCover("ran")
}
