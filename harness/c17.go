//go:build verif

package comet

// C17 — a storage directory is owned by at most one open store at a time.

func init() {
	vHarnesses["H_C17_seq"] = H_C17_seq
	vHarnesses["H_C17_fault"] = H_C17_fault
	vHarnesses["H_C17_race"] = H_C17_race
	vHarnesses["H_C17_close_race"] = H_C17_close_race
}

func vStoreCfg(dir string) *StorageConfig {
	flat, _ := NewFlatIndex(1, L2Squared)
	cfg := DefaultStorageConfig(dir)
	cfg.VectorIndexTemplate = flat
	cfg.TextIndexTemplate = NewBM25SearchIndex()
	cfg.MetadataIndexTemplate = NewRoaringMetadataIndex()
	return cfg
}

// every public operation on a closed handle fails cleanly
func vClosedHandleFails(s *PersistentHybridIndex) {
	_, e1 := s.Add([]float32{1}, "fox", nil)
	vAssert(e1 != nil, "add-after-close-is-error")
	vAssert(s.AddWithID(7, []float32{1}, "", nil) != nil, "addwithid-after-close-is-error")
	vAssert(s.Remove(7) != nil, "remove-after-close-is-error")
	vAssert(s.Flush() != nil, "flush-after-close-is-error")
	_, e2 := s.NewSearch().WithVector([]float32{1}).WithK(1).Execute()
	vAssert(e2 != nil, "search-after-close-is-error")
	vAssert(s.Train([][]float32{{1}}) != nil, "train-after-close-is-error")
}

// sequences of Open / Close / use of an old handle on one directory
func H_C17_seq() {
	dir := vTempDir()
	lock := dir + "/LOCK"
	var open []*PersistentHybridIndex // handles currently believed open (at most one can be)
	var closed []*PersistentHybridIndex
	prepared := map[*PersistentHybridIndex]HybridSearch{} // a query built while the handle was open
	n := 2 + vChoose("len", 4)
	for i := 0; i < n; i++ {
		switch vChoose(vName("op", i), 3) {
		case 0: // Open
			before := vFSList()
			s, err := OpenPersistentHybridIndex(vStoreCfg(dir))
			if len(open) > 0 {
				vAssert(err != nil && s == nil, "open-of-an-owned-directory-fails")
				vAssert(vFSList() == before, "failed-open-does-not-modify-the-directory")
				vCover("open-refused")
			} else {
				vAssert(err == nil && s != nil, "open-of-a-free-directory-succeeds")
				vAssert(vFSExists(lock), "lock-present-while-open")
				open = append(open, s)
				prepared[s] = s.NewSearch().WithVector([]float32{1}).WithK(1)
			}
		case 1: // Close the open handle
			if len(open) == 0 {
				continue
			}
			s := open[0]
			vAssert(s.Close() == nil, "close-ok")
			vAssert(!vFSExists(lock), "close-releases-the-lock")
			open = nil
			closed = append(closed, s)
			vCover("closed")
		case 2: // use / close an old handle again
			if len(closed) == 0 {
				continue
			}
			s := closed[len(closed)-1]
			before := vFSList()
			vAssert(s.Close() != nil, "second-close-reports-an-error")
			vClosedHandleFails(s)
			if ps := prepared[s]; ps != nil {
				_, pe := ps.Execute()
				vAssert(pe != nil, "prepared-search-after-close-is-error")
			}
			vAssert(vFSList() == before, "use-after-close-changes-nothing")
			if len(open) > 0 {
				vAssert(vFSExists(lock), "old-handle-does-not-release-the-new-owner-s-lock")
			}
			vCover("use-after-close")
		}
	}
	for _, s := range open {
		s.Close()
	}
}

// an Open that fails for any reason (a fault at any file-system call of Open) leaves no lock behind
func H_C17_fault() {
	dir := vTempDir()
	lock := dir + "/LOCK"
	if vChoose("preexisting_store", 2) == 1 {
		s, err := OpenPersistentHybridIndex(vStoreCfg(dir))
		vAssert(err == nil, "open-ok")
		vAssert(s.Close() == nil, "close-ok")
	}
	base := vFSOps()
	vFSFailAt(base + vChoose("fault_at", 6)) // MkdirAll, create LOCK, write pid, ReadDir (counter), ReadDir (list), ...
	s, err := OpenPersistentHybridIndex(vStoreCfg(dir))
	if err != nil {
		vAssert(s == nil, "failed-open-returns-no-handle")
		vAssert(!vFSExists(lock), "failed-open-leaves-no-lock")
		vCover("open-failed")
		s2, err2 := OpenPersistentHybridIndex(vStoreCfg(dir))
		vAssert(err2 == nil, "next-open-succeeds-after-a-failed-open")
		if err2 == nil {
			s2.Close()
		}
		return
	}
	vCover("open-survived")
	vFSFailAt(-1)
	vAssert(s.Close() == nil, "close-ok")
	vAssert(!vFSExists(lock), "close-releases-the-lock")
}

// two goroutines racing to open the same directory: exactly one succeeds
func H_C17_race() {
	dir := vTempDir()
	res := make([]*PersistentHybridIndex, 2)
	errs := make([]error, 2)
	done := make(chan int, 2)
	vSchedFork(true)
	vPreempt(2)
	vFSSched(2) // every file-system call of Open is a pre-emption point (create LOCK | write pid | list ...)
	for g := 0; g < 2; g++ {
		g := g
		go func() {
			res[g], errs[g] = OpenPersistentHybridIndex(vStoreCfg(dir))
			done <- g
		}()
	}
	<-done
	<-done
	vPreempt(0)
	ok := 0
	for g := 0; g < 2; g++ {
		if errs[g] == nil {
			ok++
		}
	}
	vAssert(ok == 1, "exactly-one-racing-open-succeeds")
	for g := 0; g < 2; g++ {
		if errs[g] == nil {
			vAssert(res[g].Close() == nil, "close-ok")
		}
	}
	vAssert(!vFSExists(dir+"/LOCK"), "lock-released")
	vCover("ran")
}

// an Open racing with the Close of the current owner (which still has data to persist): if the new owner
// gets in, the old owner has finished with the directory — nothing of it is written afterwards
func H_C17_close_race() {
	dir := vTempDir()
	s, err := OpenPersistentHybridIndex(vStoreCfg(dir))
	vAssert(err == nil, "open-ok")
	vAssert(s.AddWithID(1, []float32{1}, "fox", nil) == nil, "add-ok")
	var s2 *PersistentHybridIndex
	var err2, cerr error
	atOpen := ""
	done := make(chan int, 2)
	vSchedFork(true)
	vPreempt(1)
	vFSSched(1)
	go func() {
		cerr = s.Close()
		done <- 0
	}()
	go func() {
		s2, err2 = OpenPersistentHybridIndex(vStoreCfg(dir))
		if err2 == nil {
			atOpen = vFSList()
		}
		done <- 1
	}()
	<-done
	<-done
	vPreempt(0)
	vFSSched(0)
	vAssert(cerr == nil, "close-ok")
	if err2 == nil {
		vAssert(vFSList() == atOpen, "old-owner-writes-nothing-after-the-new-owner-opened")
		vCover("new-owner-got-in")
		vAssert(s2.Close() == nil, "close-ok")
	} else {
		vAssert(s2 == nil, "failed-open-returns-no-handle")
		vCover("open-refused")
	}
	vAssert(!vFSExists(dir+"/LOCK"), "lock-released")
}

func init() {
	vHarnesses["H_C17_lock3"] = H_C17_lock3
	vHarnesses["H_C17_close_busy"] = H_C17_close_busy
}

// the lock protocol itself (storageProvider, the unit under Open / Close): the owner releases while two
// other providers try to acquire — three threads, every file-system call a pre-emption point: at most one
// of the two acquires succeeds, and whoever owns the directory at the end has the LOCK file
func H_C17_lock3() {
	dir := vTempDir()
	owner, err := newStorageProvider(dir)
	vAssert(err == nil, "open-ok")
	a := &storageProvider{baseDir: dir}
	b := &storageProvider{baseDir: dir}
	var ea, eb, er error
	done := make(chan int, 3)
	vSchedFork(true)
	vPreempt(4)
	vFSSched(1)
	go func() { er = owner.releaseLock(); done <- 0 }()
	go func() { ea = a.acquireLock(); done <- 1 }()
	go func() { eb = b.acquireLock(); done <- 2 }()
	<-done
	<-done
	<-done
	vPreempt(0)
	vFSSched(0)
	vSchedFork(false)
	vAssert(er == nil, "release-ok")
	vAssert(!(ea == nil && eb == nil), "at-most-one-owner")
	if ea == nil || eb == nil {
		vAssert(vFSExists(dir+"/LOCK"), "owner-holds-the-lock-file")
		vCover("one-acquired")
	} else {
		vAssert(!vFSExists(dir+"/LOCK"), "failed-acquire-leaves-no-lock")
		vCover("both-refused")
	}
}

// Close while the store is busy: a compaction due or in flight (two segments, threshold 2) or an Add that
// has passed its closed-check with a flush request pending (flush threshold one byte): Close succeeds, no
// panic, no deadlock — and afterwards every operation on the old handle fails cleanly, a second Close included
func H_C17_close_busy() {
	dir := vTempDir()
	cfg := vStoreCfg(dir)
	cfg.CompactionThreshold = 2
	busy := vChoose("busy_with", 2)
	if busy == 1 {
		cfg.FlushThreshold = 1
	}
	s, err := OpenPersistentHybridIndex(cfg)
	vAssert(err == nil, "open-ok")
	var e1, e2 error
	if busy == 0 {
		for i := 0; i < 2; i++ {
			vAssert(s.AddWithID(uint32(11+i), []float32{float32(i)}, "fox", nil) == nil, "add-ok")
			vAssert(s.Flush() == nil, "flush-ok")
		}
		vPar(1, func() { e1 = s.Close() }, func() { s.TriggerCompaction() })
		vTag("compaction")
	} else {
		vPar(1, func() { e1 = s.Close() }, func() { e2 = s.AddWithID(11, []float32{1}, "fox", nil) })
		vTag("add-with-flush-request")
	}
	_ = e2
	vAssert(e1 == nil, "close-ok")
	vAssert(!vFSExists(dir+"/LOCK"), "close-releases-the-lock")
	before := vFSList()
	vAssert(s.Close() != nil, "second-close-reports-an-error")
	vClosedHandleFails(s)
	vAssert(vFSList() == before, "use-after-close-changes-nothing")
	s3, err3 := OpenPersistentHybridIndex(vStoreCfg(dir))
	vAssert(err3 == nil, "next-open-succeeds")
	if err3 == nil {
		s3.Close()
	}
	vCover("ran")
}
