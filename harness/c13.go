//go:build verif

package comet

// C13 — IVF exact at full probe; fewer probes search the nearest clusters exactly.

func init() {
	vHarnesses["H_C13_assign"] = H_C13_assign
	vHarnesses["H_C13_probe_k"] = H_C13_probe_k
	vHarnesses["H_C13_probe_th"] = H_C13_probe_th
	vHarnesses["H_C13_probe_ops"] = H_C13_probe_ops
	vHarnesses["H_C13_ivf_t"] = H_C13_ivf_t
	vHarnesses["H_C13_ivf_t_th"] = H_C13_ivf_t_th
	vHarnesses["H_C13_ivf_t3"] = H_C13_ivf_t3
	vHarnesses["H_C13_ivf_d2"] = H_C13_ivf_d2
	vHarnesses["H_C13_untrained"] = H_C13_untrained
}

// quick: one feature family symbolic at a time (the full product is the thorough tier)
func H_C13_assign()   { hC13Assign() }
func H_C13_probe_k()  { hC13(cfgC13{nlist: 2, n: 2, dim: 1, symVecs: true, symK: true, symProbes: true}) }
func H_C13_probe_th() { hC13(cfgC13{nlist: 2, n: 2, dim: 1, symTh: true, probes: []int{1, 2}}) }
func H_C13_probe_ops() {
	hC13(cfgC13{nlist: 2, n: 3, dim: 1, ops: true, symK: true, filter: true, probes: []int{1, 0}})
}
func H_C13_ivf_t()    { hC13(cfgC13{nlist: 2, n: 2, dim: 1, symVecs: true, symK: true, symProbes: true, filter: true}) }
func H_C13_ivf_t_th() { hC13(cfgC13{nlist: 2, n: 2, dim: 1, symVecs: true, symTh: true, probes: []int{1, 0}}) }
func H_C13_ivf_t3() { hC13(cfgC13{nlist: 3, n: 2, dim: 1, symVecs: true, symK: true, probes: []int{1, 2, 3}}) }
func H_C13_ivf_d2() { hC13(cfgC13{nlist: 2, n: 2, dim: 2, symVecs: true, symK: true, symProbes: true}) }

type cfgC13 struct {
	nlist, n, dim                         int
	symVecs, symK, symTh, symProbes, ops  bool
	filter                                bool
	probes                                []int
}

// every Add stores the vector in exactly one list, the one whose centroid is nearest
func hC13Assign() {
	metric := vMetrics[vChoose("metric", 3)]
	dim := 1 + vChoose("dim", 2)
	nlist := 1 + vChoose("nlist", 3)
	idx, err := NewIVFIndex(dim, nlist, metric)
	vAssert(err == nil, "constructor")
	idx.centroids = vCentroids(nlist, dim, true)
	idx.trained = true
	m := vNewRef(metric)
	if vAddBoth(idx, m, 5, vVec("v", dim)) {
		vC13CheckAssigned(idx, m, 5)
		vCover("added")
	}
}

func vC13CheckAssigned(idx *IVFIndex, m *vRef, id uint32) {
	found, at := 0, -1
	for li, list := range idx.lists {
		for _, v := range list {
			if v.ID() == id {
				found++
				at = li
			}
		}
	}
	vAssert(found == 1, "stored-in-exactly-one-list")
	if at >= 0 {
		e := m.find(id)
		dAt := m.dist.Calculate(e.vec, idx.centroids[at])
		for c := range idx.centroids {
			if c != at {
				vAssert(!(m.dist.Calculate(e.vec, idx.centroids[c]) < dAt), "assigned-to-nearest-centroid")
			}
		}
	}
}

func hC13(cf cfgC13) {
	metric := vMetrics[vChoose("metric", 3)]
	dim, nlist, n := cf.dim, cf.nlist, cf.n
	idx, err := NewIVFIndex(dim, nlist, metric)
	vAssert(err == nil, "constructor")
	idx.centroids = vCentroids(nlist, dim, cf.symVecs)
	idx.trained = true
	m := vNewRef(metric)
	for i := 0; i < n; i++ {
		var v []float32
		if cf.symVecs {
			v = vVec(vName("v", i), dim)
		} else {
			// concrete vector next to a chosen centroid: every assignment pattern (incl. empty clusters) is enumerated
			c := vChoose(vName("cluster", i), nlist)
			v = vCopy(idx.centroids[c])
			v[0] += []float32{0.25, -0.5, 0.75}[i]
		}
		if vAddBoth(idx, m, vIDs[i], v) {
			vC13CheckAssigned(idx, m, vIDs[i])
		}
	}
	if cf.ops {
		switch vChoose("op", 4) {
		case 1:
			vRemoveBoth(idx, m, vIDs[vChoose("target", n)])
		case 2:
			vRemoveBoth(idx, m, vIDs[vChoose("target", n)])
			vFlushBoth(idx, m)
		case 3: // update: Remove(id), [Flush], Add(id, vector next to a chosen centroid — possibly another cluster)
			id := vIDs[vChoose("target", n)]
			vRemoveBoth(idx, m, id)
			if vChoose("flush_between", 2) == 1 {
				vFlushBoth(idx, m)
			} else {
				// the model forgets the removed entry: a re-added id is live again with the new content only
				var keep []vRefEntry
				for _, e := range m.entries {
					if e.id != id {
						keep = append(keep, e)
					}
				}
				m.entries = keep
			}
			v := vCopy(idx.centroids[vChoose("new_cluster", nlist)])
			v[0] += 0.125
			if vAddBoth(idx, m, id, v) {
				vC13CheckAssigned(idx, m, id)
			}
		}
	}
	q := vVec("q", dim)
	k := 10
	if cf.symK {
		k = vInt("k")
	}
	th := float32(0)
	if cf.symTh {
		th = vF32("th")
		vAssume(th >= 0)
	}
	var filt []uint32
	if cf.filter && vChoose("filt", 2) == 1 {
		filt = []uint32{vIDs[0], 77}
	}
	var nprobes int
	if cf.symProbes {
		nprobes = vInt("nprobes")
	} else {
		nprobes = cf.probes[vChoose("nprobes", len(cf.probes))]
	}
	res, serr := idx.NewSearch().WithQuery(q).WithK(k).WithThreshold(th).WithDocumentIDs(filt...).WithNProbes(nprobes).Execute()
	pq, perr := m.dist.Preprocess(vCopy(q))
	vAssert((serr == nil) == (perr == nil), "search-error-iff-query-rejected")
	if serr != nil {
		return
	}
	if nprobes <= 0 || nprobes >= nlist {
		vCheckExact(res, m.eligible(pq, th, filt), k)
		vCover("full-probe")
		return
	}
	// partial probe: the p clusters whose centroids are nearest (ties between centroids are outside this clause)
	cd := make([]float32, nlist)
	for c := range cd {
		cd[c] = m.dist.Calculate(pq, idx.centroids[c])
		vAssume(cd[c] == cd[c])
	}
	for a := 0; a < nlist; a++ {
		for b := a + 1; b < nlist; b++ {
			vAssume(cd[a] != cd[b])
		}
	}
	probed := make([]bool, nlist)
	for c := range cd {
		nearer := 0
		for o := range cd {
			if o != c && cd[o] < cd[c] {
				nearer++
			}
		}
		probed[c] = nearer < nprobes
	}
	// restrict the model to the probed clusters
	var sub vRef
	sub.dist, sub.scoreFn = m.dist, m.scoreFn
	for li, list := range idx.lists {
		if !probed[li] {
			continue
		}
		for _, v := range list {
			if e := m.find(v.ID()); e != nil {
				sub.entries = append(sub.entries, *e)
			}
		}
	}
	vCheckExact(res, sub.eligible(pq, th, filt), k)
	// rank by rank, one more probe is never worse
	res2, e2 := idx.NewSearch().WithQuery(q).WithK(k).WithThreshold(th).WithDocumentIDs(filt...).WithNProbes(nprobes + 1).Execute()
	vAssert(e2 == nil, "more-probes-ok")
	vAssert(len(res2) >= len(res), "more-probes-not-fewer-results")
	for i := range res {
		if i < len(res2) {
			vAssert(!(res2[i].Score > res[i].Score), "more-probes-never-worse")
		}
	}
	vCover("partial-probe")
}

// adding or searching before training is an error; Train needs >= nlist vectors
func H_C13_untrained() {
	metric := vMetrics[vChoose("metric", 3)]
	nlist := 1 + vChoose("nlist", 4) // 1..4
	dim := 1 + vChoose("dim", 2)
	idx, cerr := NewIVFIndex(dim, nlist, metric)
	vAssert(cerr == nil, "constructor")
	vAssert(!idx.Trained(), "fresh-index-is-untrained")
	vAssert(idx.Add(*NewVectorNodeWithID(1, vVec("v", dim))) != nil, "add-before-training-is-error")
	_, err := idx.NewSearch().WithQuery(vVec("q", dim)).WithK(1).Execute()
	vAssert(err != nil, "search-before-training-is-error")
	_, err = idx.NewSearch().WithQuery(vVec("q", dim)).WithK(1).WithNProbes(0).Execute()
	vAssert(err != nil, "search-before-training-is-error")
	if nlist >= 2 {
		vAssert(idx.Train([]VectorNode{*NewVectorNodeWithID(1, []float32{1, 2}[:dim])}) != nil, "train-with-too-few-vectors-is-error")
		vAssert(!idx.Trained(), "still-untrained")
		vAssert(idx.Add(*NewVectorNodeWithID(1, []float32{1, 2}[:dim])) != nil, "add-before-training-is-error")
	}
	var tv []VectorNode
	for i := 0; i < nlist; i++ {
		tv = append(tv, *NewVectorNodeWithID(uint32(100+i), []float32{float32(1 + 4*i), 2}[:dim]))
	}
	vAssert(idx.Train(tv) == nil, "train-ok")
	vAssert(idx.Trained() && len(idx.centroids) == nlist, "trained")
	// training leaves the index empty: nothing added before (all refused) shows up
	r, serr := idx.NewSearch().WithQuery([]float32{1, 2}[:dim]).WithK(0).WithNProbes(0).Execute()
	vAssert(serr == nil && len(r) == 0, "freshly-trained-index-is-empty")
	vAssert(idx.Add(*NewVectorNodeWithID(3, []float32{2, 1}[:dim])) == nil, "add-after-training")
	vCover("ran")
}

func init() { vHarnesses["H_C13_reuse"] = H_C13_reuse }

// vC13Probed: the reference restricted to the p clusters whose centroids are nearest to pq (ties between
// centroid distances are assumed away)
func vC13Probed(idx *IVFIndex, m *vRef, pq []float32, p int) *vRef {
	nlist := len(idx.centroids)
	cd := make([]float32, nlist)
	for c := range cd {
		cd[c] = m.dist.Calculate(pq, idx.centroids[c])
		vAssume(cd[c] == cd[c])
	}
	for a := 0; a < nlist; a++ {
		for b := a + 1; b < nlist; b++ {
			vAssume(cd[a] != cd[b])
		}
	}
	var sub vRef
	sub.dist, sub.scoreFn = m.dist, m.scoreFn
	for li, list := range idx.lists {
		nearer := 0
		for o := range cd {
			if o != li && cd[o] < cd[li] {
				nearer++
			}
		}
		if nearer >= p {
			continue
		}
		for _, v := range list {
			if e := m.find(v.ID()); e != nil {
				sub.entries = append(sub.entries, *e)
			}
		}
	}
	return &sub
}

// state carried from one query to the next: three clusters, five concrete vectors, p = 1..2 probes.  One search
// object is executed for a first query and then, re-targeted with WithQuery, for a second one; and a two-query batch
// (max rule, k covering everything) is compared with its two single-query answers.  Each query probes ITS OWN p
// nearest clusters.
func H_C13_reuse() {
	metric := []DistanceKind{L2Squared, Euclidean}[vChoose("metric", 2)]
	idx, err := NewIVFIndex(1, 3, metric)
	vAssert(err == nil, "constructor")
	idx.centroids = vCentroids(3, 1, false) // 0, 4, -3
	idx.trained = true
	m := vNewRef(metric)
	for i, x := range []float32{0.25, 3.5, -2.5, 4.75} {
		vAddBoth(idx, m, uint32(20-3*i), []float32{x})
	}
	p := 1 + vChoose("nprobes", 2)
	q1 := vVec("q1", 1)
	q2 := vCopy([][]float32{{-3.25}, {0.5}, {4.5}}[vChoose("second_query", 3)])
	vAssume(vAnd(q1[0] >= -16, q1[0] <= 16))
	const k = 10
	if vChoose("shape", 2) == 0 {
		s := idx.NewSearch().WithQuery(vCopy(q1)).WithK(k).WithNProbes(p)
		r1, e1 := s.Execute()
		vAssert(e1 == nil, "search-ok")
		vCheckExact(r1, vC13Probed(idx, m, q1, p).eligible(q1, 0, nil), k)
		r2, e2 := s.WithQuery(vCopy(q2)).Execute()
		vAssert(e2 == nil, "search-ok")
		vTag("second-execute")
		vCheckExact(r2, vC13Probed(idx, m, q2, p).eligible(q2, 0, nil), k)
		vCover("second-execute")
		return
	}
	rb, eb := idx.NewSearch().WithQuery(vCopy(q1), vCopy(q2)).WithK(k).WithNProbes(p).WithScoreAggregation(MaxAggregation).Execute()
	vAssert(eb == nil, "search-ok")
	E1 := vC13Probed(idx, m, q1, p).eligible(q1, 0, nil)
	E2 := vC13Probed(idx, m, q2, p).eligible(q2, 0, nil)
	// every id of either per-query answer is in the batch answer with the maximum of its scores, and nothing else is
	cnt := 0
	for i := range m.entries {
		id := m.entries[i].id
		var ss []float32
		for _, e := range E1 {
			if e.id == id {
				ss = append(ss, e.d)
			}
		}
		for _, e := range E2 {
			if e.id == id {
				ss = append(ss, e.d)
			}
		}
		found := false
		for _, r := range rb {
			if r.GetId() == id {
				found = true
				vAssert(len(ss) > 0, "batch-result-comes-from-a-probed-cluster-of-one-of-the-queries")
				if len(ss) > 0 {
					vAssertIsMax(r.Score, ss, "batch-max")
				}
			}
		}
		if len(ss) > 0 {
			cnt++
			vAssert(found, "batch-holds-every-per-query-hit")
		}
	}
	vAssert(len(rb) == cnt, "batch-count")
	vCover("batch")
}
