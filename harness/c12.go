//go:build verif

package comet

// C12 — HNSW never hides live vectors: non-empty, exact when small, robust to
// removals, every vertex reachable on the bottom layer.
//
// Geometry on the exact-integer domain (EI): d = 1, l2_squared, integer
// coordinates in [-15,15]; every distance comparison the code makes is exact
// and linear for the solver.

func init() {
	vHarnesses["H_C12_small"] = H_C12_small
	vHarnesses["H_C12_remove"] = H_C12_remove
	vHarnesses["H_C12_levels"] = H_C12_levels
	vHarnesses["H_C12_reach6"] = H_C12_reach6
	vHarnesses["H_C12_small5"] = H_C12_small5
}

const vHM = 2 // M

func vHNSWAdd(idx *HNSWIndex, m *vRef, id uint32, raw []float32, levelBudget int) {
	vRandBudget(levelBudget)
	want := vExpectLevel(vHM)
	vAddBoth(idx, m, id, raw)
	vRandBudget(0)
	if want >= 0 && idx.nodes[id] != nil && idx.nodes[id].Level != want {
		panic(vAssumeFailed{"retry: random level differs from the replayed draw"})
	}
}

// every vertex in idx.nodes is reachable from the entry point along layer-0 edges
func vHNSWReachable(idx *HNSWIndex) {
	if len(idx.nodes) == 0 {
		return
	}
	seen := map[uint32]bool{idx.entryPoint: true}
	queue := []uint32{idx.entryPoint}
	for len(queue) > 0 {
		cur := queue[0]
		queue = queue[1:]
		nd := idx.nodes[cur]
		if nd == nil || len(nd.Edges) == 0 {
			continue
		}
		for _, nb := range nd.Edges[0] {
			if !seen[nb] {
				seen[nb] = true
				queue = append(queue, nb)
			}
		}
	}
	for id := range idx.nodes {
		if !seen[id] {
			vTag("orphan=" + vName("node", int(id)))
		}
		vAssert(seen[id], "every-vertex-reachable-on-layer-0")
	}
}

func vHNSWSearchChecks(idx *HNSWIndex, m *vRef, resident int, kChoices []int) {
	q := vVec("q", 1)
	k := kChoices[vChoose("k", len(kChoices))]
	res, err := idx.NewSearch().WithQuery(q).WithK(k).Execute()
	vAssert(err == nil, "search-ok")
	if m.liveCount() > 0 {
		vAssert(len(res) >= 1, "nonempty-while-live")
		vCover("live")
	}
	E := m.eligible(q, 0, nil)
	if resident <= 2*vHM {
		vCheckExact(res, E, k) // exact k-NN while at most 2M vectors resident and ef >= that
		vCover("exact-clause")
	} else {
		vCheckSound(res, E, k)
	}
}

// n adds (levels fixed to 0), search
func hC12Small(n int, levelBudget int) {
	idx, err := NewHNSWIndex(1, L2Squared, vHM, 8, 8)
	vAssert(err == nil, "constructor")
	m := vNewRef(L2Squared)
	for i := 0; i < n; i++ {
		vHNSWAdd(idx, m, vIDs[i], vVec(vName("v", i), 1), levelBudget)
	}
	vHNSWReachable(idx)
	vHNSWSearchChecks(idx, m, n, []int{1, n})
}

func H_C12_small()  { hC12Small(2+vChoose("n", 3), 0) } // n = 2..4
func H_C12_small5() { hC12Small(5, 0) }
func H_C12_levels() { hC12Small(2+vChoose("n", 2), 1) } // n = 2..3, symbolic level draws (<=1 success per node)

// removals (any target: entry point, others), optional flush, optional later add
func H_C12_remove() {
	idx, err := NewHNSWIndex(1, L2Squared, vHM, 8, 8)
	vAssert(err == nil, "constructor")
	m := vNewRef(L2Squared)
	n := 2 + vChoose("n", 2)
	for i := 0; i < n; i++ {
		vHNSWAdd(idx, m, vIDs[i], vVec(vName("v", i), 1), 0)
	}
	t := vChoose("target", n)
	if t == 0 {
		vTag("removed=entry-point")
	} else {
		vTag("removed=other")
	}
	vRemoveBoth(idx, m, vIDs[t])
	resident := n
	flushed := vChoose("flush", 2) == 1
	if flushed {
		vFlushBoth(idx, m)
		resident = n - 1
		vTag("flushed")
	}
	switch vChoose("add_after", 3) {
	case 1:
		vHNSWAdd(idx, m, vIDs[n], vVec(vName("v", n), 1), 0)
		resident++
		vTag("add-after")
	case 2: // update: the removed id comes back with new content (also when it was the entry point)
		vHNSWAdd(idx, m, vIDs[t], vVec(vName("v", n), 1), 0)
		if flushed {
			resident++
		}
		vTag("re-add-of-the-removed-id")
	}
	vHNSWReachable(idx)
	vHNSWSearchChecks(idx, m, resident, []int{1, 4})
}

// layer-0 pruning needs a vertex with more than 2M = 4 neighbours, i.e. 6 vertices:
// region "first five points within distance 4 of each other, the sixth at distance >= 8"
func H_C12_reach6() {
	idx, err := NewHNSWIndex(1, L2Squared, vHM, 12, 12)
	vAssert(err == nil, "constructor")
	m := vNewRef(L2Squared)
	vs := make([][]float32, 6)
	for i := range vs {
		vs[i] = vVec(vName("v", i), 1)
	}
	for i := 1; i < 5; i++ {
		vAssume(vAnd(vs[i][0]-vs[0][0] <= 4, vs[0][0]-vs[i][0] <= 4))
	}
	for i := 0; i < 5; i++ {
		vAssume(vOr(vs[5][0]-vs[i][0] >= 8, vs[i][0]-vs[5][0] >= 8))
	}
	for i := range vs {
		vHNSWAdd(idx, m, vIDs[i], vs[i], 0)
	}
	vHNSWReachable(idx)
	vCover("built")
}

func init() {
	vHarnesses["H_C12_t1"] = H_C12_t1
	vHarnesses["H_C12_t1_remove"] = H_C12_t1_remove
	vHarnesses["H_C12_remove2"] = H_C12_remove2
}

// all three metrics, d <= 2, n <= 3, all float32 (T1: uninterpreted arithmetic)
func H_C12_t1() {
	metric := vMetrics[vChoose("metric", 3)]
	dim := 1 + vChoose("dim", 2)
	idx, err := NewHNSWIndex(dim, metric, vHM, 8, 8)
	vAssert(err == nil, "constructor")
	m := vNewRef(metric)
	n := 2 + vChoose("n", 2)
	for i := 0; i < n; i++ {
		vAddBoth(idx, m, vIDs[i], vVec(vName("v", i), dim))
	}
	vHNSWReachable(idx)
	q := vVec("q", dim)
	k := []int{1, n}[vChoose("k", 2)]
	res, serr := idx.NewSearch().WithQuery(q).WithK(k).Execute()
	pq, perr := m.dist.Preprocess(vCopy(q))
	if len(m.entries) == 0 {
		return
	}
	vAssert((serr == nil) == (perr == nil), "search-error-iff-query-rejected")
	if serr != nil {
		return
	}
	if m.liveCount() > 0 {
		vAssert(len(res) >= 1, "nonempty-while-live")
	}
	vCheckExact(res, m.eligible(pq, 0, nil), k)
	vCover("exact-clause")
}

// removal of any vertex (incl. the entry point) without / with flush, l2 and cosine, T1
func H_C12_t1_remove() {
	metric := []DistanceKind{Euclidean, Cosine}[vChoose("metric", 2)]
	idx, err := NewHNSWIndex(1, metric, vHM, 8, 8)
	vAssert(err == nil, "constructor")
	m := vNewRef(metric)
	n := 3
	for i := 0; i < n; i++ {
		vAddBoth(idx, m, vIDs[i], vVec(vName("v", i), 1))
	}
	if len(m.entries) < 2 {
		return
	}
	vRemoveBoth(idx, m, m.entries[vChoose("target", 2)].id)
	if vChoose("flush", 2) == 1 {
		vFlushBoth(idx, m)
	}
	q := vVec("q", 1)
	res, serr := idx.NewSearch().WithQuery(q).WithK(3).Execute()
	pq, perr := m.dist.Preprocess(vCopy(q))
	vAssert((serr == nil) == (perr == nil), "search-error-iff-query-rejected")
	if serr != nil {
		return
	}
	vAssert(len(res) >= 1, "nonempty-while-live")
	vCheckExact(res, m.eligible(pq, 0, nil), 3)
	vCover("exact-clause")
}

// two removals (entry point and / or its neighbours), optional flush between and after (EI)
func H_C12_remove2() {
	idx, err := NewHNSWIndex(1, L2Squared, vHM, 8, 8)
	vAssert(err == nil, "constructor")
	m := vNewRef(L2Squared)
	n := 4
	for i := 0; i < n; i++ {
		vHNSWAdd(idx, m, vIDs[i], vVec(vName("v", i), 1), 0)
	}
	t1 := vChoose("target1", n)
	vRemoveBoth(idx, m, vIDs[t1])
	if vChoose("flush1", 2) == 1 {
		vFlushBoth(idx, m)
	}
	t2 := vChoose("target2", n-1)
	if t2 >= t1 {
		t2++
	}
	vRemoveBoth(idx, m, vIDs[t2])
	if vChoose("flush2", 2) == 1 {
		vFlushBoth(idx, m)
	}
	vHNSWReachable(idx)
	vHNSWSearchChecks(idx, m, n, []int{1, 4})
}

func init() {
	vHarnesses["H_C12_levels_remove"] = H_C12_levels_remove
}

// symbolic level draws combined with removals: the entry point / the only
// upper-layer vertices may be removed; flush; a later add near anything
func H_C12_levels_remove() {
	idx, err := NewHNSWIndex(1, L2Squared, vHM, 8, 8)
	vAssert(err == nil, "constructor")
	m := vNewRef(L2Squared)
	n := 3
	for i := 0; i < n; i++ {
		vHNSWAdd(idx, m, vIDs[i], vVec(vName("v", i), 1), 1)
	}
	nrem := 1 + vChoose("removals", 2)
	t1 := vChoose("target1", n)
	vRemoveBoth(idx, m, vIDs[t1])
	if nrem == 2 {
		t2 := vChoose("target2", n-1)
		if t2 >= t1 {
			t2++
		}
		vRemoveBoth(idx, m, vIDs[t2])
	}
	resident := n
	if vChoose("flush", 2) == 1 {
		vFlushBoth(idx, m)
		resident = n - nrem
	}
	if vChoose("add_after", 2) == 1 {
		vHNSWAdd(idx, m, vIDs[n], vVec(vName("v", n), 1), 1)
		resident++
	}
	vHNSWReachable(idx)
	vHNSWSearchChecks(idx, m, resident, []int{1, 4})
}

func init() { vHarnesses["H_C12_remove_all"] = H_C12_remove_all }

// every resident vertex soft-deleted, then a new vector is added (no flush in between)
func H_C12_remove_all() {
	idx, err := NewHNSWIndex(1, L2Squared, vHM, 8, 8)
	vAssert(err == nil, "constructor")
	m := vNewRef(L2Squared)
	n := 1 + vChoose("n", 3)
	for i := 0; i < n; i++ {
		vHNSWAdd(idx, m, vIDs[i], vVec(vName("v", i), 1), 0)
	}
	for i := 0; i < n; i++ {
		vRemoveBoth(idx, m, vIDs[i])
	}
	vTag("all-removed-then-add")
	vHNSWAdd(idx, m, vIDs[n], vVec(vName("v", n), 1), 0)
	if vChoose("second_add", 2) == 1 {
		vHNSWAdd(idx, m, vIDs[n+1], vVec(vName("v", n+1), 1), 0)
	}
	vHNSWSearchChecks(idx, m, n+2, []int{1, 4})
	if vChoose("flush", 2) == 1 {
		vFlushBoth(idx, m)
		vHNSWReachable(idx)
		vHNSWSearchChecks(idx, m, 2, []int{4})
	}
}

func init() { vHarnesses["H_C12_interleave"] = H_C12_interleave }

// interleaved histories: each of 5 steps adds the next vector or removes a live one
// (chains of soft-deleted vertices between the entry point and the live ones arise)
func H_C12_interleave() {
	idx, err := NewHNSWIndex(1, L2Squared, vHM, 8, 8)
	vAssert(err == nil, "constructor")
	m := vNewRef(L2Squared)
	added := 0
	resident := 0
	for step := 0; step < 5; step++ {
		live := m.liveCount()
		if added < 2 || live == 0 || (added < 4 && vChoose(vName("op", step), 2) == 0) {
			if added >= 4 {
				break
			}
			vHNSWAdd(idx, m, vIDs[added], vVec(vName("v", added), 1), 0)
			added++
			resident++
			continue
		}
		// remove the t-th live vertex
		t := vChoose(vName("target", step), live)
		for i := range m.entries {
			if m.entries[i].live {
				if t == 0 {
					vRemoveBoth(idx, m, m.entries[i].id)
					break
				}
				t--
			}
		}
	}
	vHNSWSearchChecks(idx, m, resident, []int{4})
}

func init() { vHarnesses["H_C12_band"] = H_C12_band }

// a soft-deleted band between the entry point and live vertices, then one more Add next to it whose
// back-links overflow (and prune) the neighbour lists bordering the band: ten vertices on a concrete line
// (levels 0), band start / width chosen, the new vertex at any integer coordinate; the vertices behind
// the band must stay reachable (search traverses soft-deleted vertices) and the search non-empty / sound.
func H_C12_band() {
	idx, err := NewHNSWIndex(1, L2Squared, vHM, 8, 8)
	vAssert(err == nil, "constructor")
	m := vNewRef(L2Squared)
	const n = 10
	for i := 0; i < n; i++ {
		vHNSWAdd(idx, m, uint32(10+i), []float32{float32(-14 + 3*i)}, 0)
	}
	vHNSWReachable(idx)
	s := 1 + vChoose("band_start", 6) // 1..6
	w := 2 + vChoose("band_width", 3) // 2..4
	vAssume(s+w <= n-1)
	for i := s; i < s+w; i++ {
		vRemoveBoth(idx, m, uint32(10+i))
	}
	vTag(vName("band", s*10+w))
	// the new vertex lies among the live vertices on the entry point's side (next to the band or not):
	// an outlier placed inside the band is the known outlier-orphaning finding of H_C12_reach6, not this harness' subject
	x := vVec("x", 1)
	vAssume(vAnd(x[0] >= float32(-15), x[0] <= float32(-14+3*(s-1)+1)))
	vHNSWAdd(idx, m, 30, x, 0)
	vHNSWReachable(idx)
	if vChoose("remove_left_too", 2) == 1 {
		// the whole side holding the entry point goes as well: only vertices behind the band stay live
		for i := 0; i < s; i++ {
			vRemoveBoth(idx, m, uint32(10+i))
		}
		vRemoveBoth(idx, m, 30)
		vTag("left-removed")
	}
	vHNSWSearchChecks(idx, m, n+1, []int{4})
	vCover("built")
}
