//go:build verif

package comet

// C10 — a crash at any point leaves a directory that reopens to a consistent store.
// Crash point = index into the sequence of file-system operations of the interrupted
// call (create x4, every gzip header / payload / trailer write, every close, every
// remove); the modelled process dies there, LOCK is deleted, the directory is
// reopened with fresh templates.

func init() {
	vHarnesses["H_C10_flush"] = H_C10_flush
	vHarnesses["H_C10_compact"] = H_C10_compact
	vHarnesses["H_C10_flush_race"] = H_C10_flush_race
	vHarnesses["H_C10_damaged"] = H_C10_damaged
}

// a segment with a missing, empty or truncated component file is ignored as a whole and its identifier is
// not reused: two completed flushes (two sessions' worth of ids 1, 2), ANY component file of the newest
// segment missing / empty / cut in half, reopen, Add + Flush: nothing is overwritten, the new segment takes
// an id above every id in the directory, the document of the intact segment is found
func H_C10_damaged() {
	vStoreTemplates = []int{0, 3}[vChoose("templates", 2)]
	dir := vTempDir()
	s, err := OpenPersistentHybridIndex(vFreshStoreCfg(dir, false))
	vAssert(err == nil, "open-ok")
	for f := 0; f < 2; f++ {
		d := vStoreDocs[f]
		vAssert(s.AddWithID(d.id, []float32{d.vec}, d.text, map[string]interface{}{"c": d.c}) == nil, "add-ok")
		vAssert(s.Flush() == nil, "flush-ok")
	}
	vAssert(s.Close() == nil, "close-ok")
	kinds := []string{"hybrid", "vector", "text", "metadata"}
	if vStoreTemplates == 3 {
		kinds = kinds[:2]
	}
	kind := kinds[vChoose("file", len(kinds))]
	path := dir + "/" + vSegName(kind, 2)
	vAssert(vFSExists(path), "component-file-written")
	vTag("file=" + kind)
	switch vChoose("damage", 3) {
	case 0:
		vFSRemove(path)
		vTag("missing")
	case 1:
		vFSTruncate(path, 0)
		vTag("empty")
	case 2:
		vFSTruncate(path, vFSSize(path)/2)
		vTag("cut-in-half")
	}
	s2, err2 := OpenPersistentHybridIndex(vFreshStoreCfg(dir, false))
	vAssert(err2 == nil, "open-with-a-damaged-segment-ok")
	if err2 != nil {
		return
	}
	r, e := s2.NewSearch().WithVector([]float32{1}).WithK(10).Execute()
	vAssert(e == nil, "search-no-error")
	for _, id := range vIDsOfHybrid(r) {
		vAssert(id == vStoreDocs[0].id || id == vStoreDocs[1].id, "no-never-added-document")
	}
	x := vStoreDocs[3]
	before := vFSOverwrites()
	vAssert(s2.AddWithID(x.id, []float32{x.vec}, x.text, map[string]interface{}{"c": x.c}) == nil, "add-after-reopen-ok")
	vAssert(s2.Flush() == nil, "flush-after-reopen-ok")
	vAssert(vFSOverwrites() == before, "segment-files-never-overwritten")
	vAssert(vFSExists(dir+"/"+vSegName("hybrid", 3)), "next-segment-id-is-above-every-id-in-the-directory")
	s2.Close()
	vCover("ran")
}

// an explicit Flush racing with the background flush worker over the same frozen memtable: the process dies
// the instant Flush has returned nil (image = snapshot at that instant, whatever the worker was in the middle
// of); the document acknowledged by that Flush is found after reopening the image
func H_C10_flush_race() {
	vStoreTemplates = 3
	dir := vTempDir()
	s, err := OpenPersistentHybridIndex(vFreshStoreCfg(dir, false))
	vAssert(err == nil, "open-ok")
	d := vStoreDocs[0]
	vAssert(s.AddWithID(d.id, []float32{d.vec}, d.text, nil) == nil, "add-ok")
	s.memtableQueue.Rotate()
	select { // what a size-triggered rotation does: wake the flush worker
	case s.flushChan <- struct{}{}:
	default:
	}
	var ferr error
	snap := -1
	done := make(chan int, 1)
	vSchedFork(true)
	vPreempt(1)
	vFSSched(2)
	go func() {
		ferr = s.Flush()
		snap = vFSSnapshot()
		done <- 0
	}()
	<-done
	vPreempt(0)
	vFSSched(0)
	vSchedFork(false)
	vAssert(ferr == nil, "flush-ok")
	vAssert(s.Close() == nil, "close-ok")
	vFSRestore(snap)
	vCover("ran")
	if s2 := vReopenAfterCrash(dir, []vStoreDoc{d}, nil); s2 != nil {
		s2.Close()
	}
}

func vIDsOfHybrid(rs []HybridSearchResult) []uint32 {
	var o []uint32
	for _, r := range rs {
		o = append(o, r.ID)
	}
	return o
}

// vReopenAfterCrash: remove the stale LOCK, reopen with fresh templates, check the consistency clauses
func vReopenAfterCrash(dir string, durable, maybe []vStoreDoc) *PersistentHybridIndex {
	vFSRemove(dir + "/LOCK")
	s, err := OpenPersistentHybridIndex(vFreshStoreCfg(dir, false))
	vAssert(err == nil, "reopen-after-crash-ok")
	if err != nil {
		return nil
	}
	known := map[uint32]bool{}
	for _, d := range durable {
		known[d.id] = true
	}
	for _, d := range maybe {
		known[d.id] = true
	}
	for round := 0; round < 2; round++ {
		label := "first-search"
		if round == 1 {
			label = "cached-search" // second search: segments are served from the cache (shared template instances)
		}
		r, e := s.NewSearch().WithVector([]float32{1}).WithK(10).Execute()
		vAssert(e == nil, label+"-no-error")
		for _, id := range vIDsOfHybrid(r) {
			vAssert(known[id], label+"-no-never-added-document")
		}
		for _, d := range durable {
			vAssert(vContains(vIDsOfHybrid(r), d.id), label+"-durable-document-found")
		}
		if s.config.TextIndexTemplate != nil {
			rt, e2 := s.NewSearch().WithText("fox").WithK(10).Execute()
			vAssert(e2 == nil, label+"-no-error")
			for _, id := range vIDsOfHybrid(rt) {
				vAssert(known[id], label+"-no-never-added-document")
			}
		}
	}
	return s
}

func vHighestSegID(dir string) int {
	hi := 0
	for id := 1; id <= 12; id++ {
		for _, k := range []string{"hybrid", "vector", "text", "metadata"} {
			if vFSExists(dir + "/" + vSegName(k, id)) {
				hi = id
			}
		}
	}
	return hi
}

// crash at any file-system operation of a Flush
func H_C10_flush() {
	vStoreTemplates = []int{0, 3}[vChoose("templates", 2)]
	dir := vTempDir()
	var durable []vStoreDoc
	earlier := vChoose("earlier_flushes", 3) // 0..2 earlier completed flushes
	next := 0
	if earlier > 0 {
		s0, err := OpenPersistentHybridIndex(vFreshStoreCfg(dir, false))
		vAssert(err == nil, "open-ok")
		for f := 0; f < earlier; f++ {
			d := vStoreDocs[next]
			next++
			vAssert(s0.AddWithID(d.id, []float32{d.vec}, d.text, map[string]interface{}{"c": d.c}) == nil, "add-ok")
			vAssert(s0.Flush() == nil, "flush-ok")
			durable = append(durable, d)
		}
		vAssert(s0.Close() == nil, "close-ok")
		if earlier >= 2 {
			vTag("two-or-more-segments")
		}
	}
	s, err := OpenPersistentHybridIndex(vFreshStoreCfg(dir, false))
	vAssert(err == nil, "open-ok")
	d := vStoreDocs[next]
	vAssert(s.AddWithID(d.id, []float32{d.vec}, d.text, map[string]interface{}{"c": d.c}) == nil, "add-ok")
	c := vChoose("crash_at", 90)
	vFSCrashAt(vFSOps() + c)
	crashed := vRunUntilCrash(func() { s.Flush() })
	if !crashed {
		vAssume(false) // the flush has fewer operations than c
	}
	vCover("crashed")
	hi := vHighestSegID(dir)
	s2 := vReopenAfterCrash(dir, durable, []vStoreDoc{d})
	if s2 == nil {
		return
	}
	// the damaged segment's identifier is not reused
	e := vStoreDocs[3]
	before := vFSOverwrites()
	vAssert(s2.AddWithID(e.id, []float32{e.vec}, e.text, map[string]interface{}{"c": e.c}) == nil, "add-after-reopen-ok")
	vAssert(s2.Flush() == nil, "flush-after-reopen-ok")
	vAssert(vFSOverwrites() == before, "segment-files-never-overwritten")
	if hi > 0 {
		vAssert(vFSExists(dir+"/"+vSegName("hybrid", hi+1)), "next-segment-id-is-above-every-id-in-the-image")
	}
	s2.Close()
}

// crash at any file-system operation of a compaction (two segments, threshold 2)
func H_C10_compact() {
	vStoreTemplates = 3
	dir := vTempDir()
	var docs []vStoreDoc
	cfg := vFreshStoreCfg(dir, false)
	cfg.CompactionThreshold = 2
	s, err := OpenPersistentHybridIndex(cfg)
	vAssert(err == nil, "open-ok")
	nseg := 2 + vChoose("segments", 2) // 3: one more segment than the threshold stays outside the compaction
	for f := 0; f < nseg; f++ {
		d := vStoreDocs[f]
		vAssert(s.AddWithID(d.id, []float32{d.vec}, d.text, nil) == nil, "add-ok")
		vAssert(s.Flush() == nil, "flush-ok")
		docs = append(docs, d)
	}
	if vChoose("restart_before_compaction", 2) == 1 {
		// the compaction runs in a later session (segment statistics are not persisted)
		vAssert(s.Close() == nil, "close-ok")
		cfg2 := vFreshStoreCfg(dir, false)
		cfg2.CompactionThreshold = 2
		s, err = OpenPersistentHybridIndex(cfg2)
		vAssert(err == nil, "open-ok")
		vTag("restarted")
	}
	c := vChoose("crash_at", 60)
	before0 := vFSOverwrites()
	vFSCrashAt(vFSOps() + c)
	crashed := vRunUntilCrash(func() { s.maybeCompact() })
	if !crashed {
		vAssume(false)
	}
	vCover("crashed")
	vTag("compaction")
	vAssert(vFSOverwrites() == before0, "compaction-never-overwrites-a-segment-file")
	// an input segment's file may be gone only once the merged segment (id nseg+1) is completely on disk
	inputGone := false
	for id := 1; id <= 2; id++ {
		for _, k := range []string{"hybrid", "vector"} {
			if !vFSExists(dir + "/" + vSegName(k, id)) {
				inputGone = true
			}
		}
	}
	if inputGone {
		vTag("input-deleted")
		fl, _ := NewFlatIndex(1, L2Squared)
		mseg := newSegmentMetadata(uint64(nseg+1), dir+"/"+vSegName("hybrid", nseg+1), dir+"/"+vSegName("vector", nseg+1), dir+"/"+vSegName("text", nseg+1), dir+"/"+vSegName("metadata", nseg+1))
		mi, merr := mseg.getIndex(fl, nil, nil)
		vAssert(merr == nil, "inputs-deleted-only-after-the-merged-segment-is-complete")
		if merr == nil {
			mr, _ := mi.NewSearch().WithVector([]float32{1}).WithK(10).Execute()
			mids := vIDsOfHybrid(mr)
			vAssert(vContains(mids, docs[0].id) && vContains(mids, docs[1].id), "merged-segment-holds-the-input-documents")
		}
	}
	hi := vHighestSegID(dir)
	vFSRemove(dir + "/LOCK")
	s2, err2 := OpenPersistentHybridIndex(vFreshStoreCfg(dir, false))
	vAssert(err2 == nil, "reopen-after-crash-ok")
	if err2 != nil {
		return
	}
	r, e := s2.NewSearch().WithVector([]float32{1}).WithK(10).Execute()
	vAssert(e == nil, "first-search-no-error")
	for _, id := range vIDsOfHybrid(r) {
		vAssert(id == docs[0].id || id == docs[1].id || (nseg == 3 && id == docs[2].id), "first-search-no-never-added-document")
	}
	x := vStoreDocs[3]
	before := vFSOverwrites()
	vAssert(s2.AddWithID(x.id, []float32{x.vec}, "", nil) == nil, "add-after-reopen-ok")
	vAssert(s2.Flush() == nil, "flush-after-reopen-ok")
	vAssert(vFSOverwrites() == before, "segment-files-never-overwritten")
	vAssert(vFSExists(dir+"/"+vSegName("hybrid", hi+1)), "next-segment-id-is-above-every-id-in-the-image")
	s2.Close()
}
