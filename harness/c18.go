//go:build verif

package comet

import "math"

// C18 — distance laws.

func init() {
	vHarnesses["H_C18_structural"] = H_C18_structural
	vHarnesses["H_C18_symmetric"] = H_C18_symmetric
	vHarnesses["H_C18_nonneg"] = H_C18_nonneg
	vHarnesses["H_C18_self_zero"] = H_C18_self_zero
	vHarnesses["H_C18_zero_rejected"] = H_C18_zero_rejected
	vHarnesses["H_C18_helpers"] = H_C18_helpers
}

var vMetrics = []DistanceKind{Euclidean, L2Squared, Cosine}

func vVec(pfx string, d int) []float32 {
	v := make([]float32, d)
	for i := range v {
		v[i] = vF32(vName(pfx, i))
	}
	return v
}

func vCopy(v []float32) []float32 { return append([]float32(nil), v...) }

func vSameVec(a, b []float32) bool {
	if len(a) != len(b) {
		return false
	}
	ok := true
	for i := range a {
		ok = vAnd(ok, vSameF32(a[i], b[i]))
	}
	return ok
}

// batch = element-wise; Preprocess leaves its argument alone and agrees with
// PreprocessInPlace; l2 = sqrt(l2sq); cosine = 1 - clamp(dot).  All float32
// inputs (NaN, Inf, -0 included), bit-exact.
func H_C18_structural() {
	kind := vMetrics[vChoose("metric", 3)]
	d := 1 + vChoose("dim", 3)
	dist, err := NewDistance(kind)
	vAssert(err == nil, "newdistance")
	a, b, c := vVec("a", d), vVec("b", d), vVec("c", d)
	// batch
	out := dist.CalculateBatch([][]float32{a, b}, c)
	vAssert(len(out) == 2, "batch-len")
	vAssert(vSameF32(out[0], dist.Calculate(a, c)), "batch-elementwise")
	vAssert(vSameF32(out[1], dist.Calculate(b, c)), "batch-elementwise")
	// preprocessing
	a0 := vCopy(a)
	p, perr := dist.Preprocess(a)
	vAssert(vSameVec(a, a0), "preprocess-leaves-argument")
	q := vCopy(a)
	ierr := dist.PreprocessInPlace(q)
	vAssert((perr == nil) == (ierr == nil), "preprocess-errors-agree")
	if perr == nil {
		vAssert(vSameVec(p, q), "inplace-equals-preprocess")
	} else {
		vAssert(perr == ErrZeroVector && kind == Cosine, "preprocess-error-kind")
		vAssert(vSameVec(q, a0), "failed-inplace-leaves-argument")
	}
	switch kind {
	case Euclidean:
		sq := l2SquaredDistanceImpl.Calculate(a, b)
		vAssert(vSameF32(dist.Calculate(a, b), float32(math.Sqrt(float64(sq)))), "l2-is-sqrt-of-l2sq")
	case Cosine:
		var dot float32
		for i := range a {
			dot += a[i] * b[i]
		}
		cl := dot
		if dot > 1 {
			cl = 1
		} else if dot < -1 {
			cl = -1
		}
		vAssert(vSameF32(dist.Calculate(a, b), 1-cl), "cosine-is-one-minus-clamped-dot")
	}
	vCover("ran")
	_, e2 := NewDistance(DistanceKind("nope"))
	vAssert(e2 == ErrUnknownDistanceKind, "unknown-kind-error")
}

// symmetric, bit-exact, any float32 — by term identity after the two
// T2-discharged rewrite lemmas (x*x = |x|*|x|, |b-a| = |a-b|).
func H_C18_symmetric() {
	vUseLemma("sqabs")
	kind := vMetrics[vChoose("metric", 3)]
	d := 1 + vChoose("dim", 3)
	dist, _ := NewDistance(kind)
	a, b := vVec("a", d), vVec("b", d)
	vAssert(vSameF32(dist.Calculate(a, b), dist.Calculate(b, a)), "symmetric")
	vCover("ran")
}

// non-negative (or NaN when a term overflowed); cosine in [0, 2].
func H_C18_nonneg() {
	kind := vMetrics[vChoose("metric", 3)]
	d := 1 + vChoose("dim", 3)
	dist, _ := NewDistance(kind)
	a, b := vVec("a", d), vVec("b", d)
	r := dist.Calculate(a, b)
	vAssert(!(r < 0), "non-negative")
	if kind == Cosine {
		vAssert(!(r > 2), "cosine-at-most-2")
	}
	vCover("ran")
}

// distance of a finite vector to itself is +0 (l2, l2sq).
func H_C18_self_zero() {
	kind := vMetrics[vChoose("metric", 2)]
	d := 1 + vChoose("dim", 3)
	dist, _ := NewDistance(kind)
	a := vVec("a", d)
	for _, x := range a {
		vAssume(vFinite32(x))
	}
	p, err := dist.Preprocess(a)
	vAssert(err == nil, "preprocess-ok")
	r := dist.Calculate(p, p)
	vAssert(r == 0, "self-distance-zero")
	vCover("ran")
}

// a vector whose components are all +-0 is rejected by cosine preprocessing.
func H_C18_zero_rejected() {
	d := 1 + vChoose("dim", 3)
	a := vVec("a", d)
	for _, x := range a {
		vAssume(x == 0) // +0 or -0
	}
	_, err := cosineDistanceImpl.Preprocess(a)
	vAssert(err == ErrZeroVector, "zero-vector-rejected")
	err = cosineDistanceImpl.PreprocessInPlace(vCopy(a))
	vAssert(err == ErrZeroVector, "zero-vector-rejected-inplace")
	vCover("ran")
}

// Norm / Scale / Normalize / NormalizeInPlace satisfy their definitions.
func H_C18_helpers() {
	d := 1 + vChoose("dim", 3)
	v := vVec("v", d)
	s := vF32("s")
	v0 := vCopy(v)
	var sum float32
	for _, x := range v {
		sum += x * x
	}
	n := float32(math.Sqrt(float64(sum)))
	vAssert(vSameF32(Norm(v), n), "norm-definition")
	sc := Scale(v, s)
	vAssert(len(sc) == d, "scale-len")
	for i := range v {
		vAssert(vSameF32(sc[i], v[i]*s), "scale-definition")
	}
	nv := Normalize(v)
	vAssert(vSameVec(v, v0), "normalize-leaves-argument")
	vAssert(len(nv) == d, "normalize-len")
	if n == 0 {
		vAssert(vSameVec(nv, v0), "normalize-zero-unchanged")
		vCover("zero")
	} else {
		vAssert(vSameVec(nv, Scale(v, 1.0/n)), "normalize-is-scale-by-inverse-norm")
		vCover("nonzero")
	}
	w := vCopy(v)
	NormalizeInPlace(w)
	vAssert(vSameVec(w, nv), "normalize-inplace-equals-normalize")
}

func init() {
	vHarnesses["H_C18_grid_unit"] = H_C18_grid_unit
	vHarnesses["H_C18_grid_triangle"] = H_C18_grid_triangle
	vHarnesses["H_C18_grid_scale"] = H_C18_grid_scale
	vHarnesses["H_C18_grid_cos_self"] = H_C18_grid_cos_self
}

func vGridVec(pfx string, d int) []float32 {
	v := make([]float32, d)
	for i := range v {
		v[i] = vGrid32(vName(pfx, i))
	}
	return v
}

func vAbs32(x float32) float32 { return float32(math.Abs(float64(x))) }

// in-place cosine preprocessing yields a unit vector (tolerance law; grid domain only)
func H_C18_grid_unit() {
	d := 1 + vChoose("dim", 2)
	a := vGridVec("a", d)
	err := cosineDistanceImpl.PreprocessInPlace(a)
	if err != nil {
		vCover("zero")
		return
	}
	n := Norm(a)
	vAssert(vAnd(n >= 1-1e-5, n <= 1+1e-5), "unit-norm")
	vCover("nonzero")
}

// triangle inequality for l2 with relative slack (grid domain, d = 1)
func H_C18_grid_triangle() {
	a, b, c := vGridVec("a", 1), vGridVec("b", 1), vGridVec("c", 1)
	ab := euclideanDistanceImpl.Calculate(a, b)
	bc := euclideanDistanceImpl.Calculate(b, c)
	ac := euclideanDistanceImpl.Calculate(a, c)
	vAssert(ac <= (ab+bc)*(1+1e-5), "triangle")
	vCover("ran")
}

// cosine distance is invariant under scaling of a raw vector by 2^j (bit-exact on the grid)
func H_C18_grid_scale() {
	d := 1 + vChoose("dim", 2)
	s := []float32{0.25, 0.5, 2, 4}[vChoose("scale", 4)]
	a, b := vGridVec("a", d), vGridVec("b", d)
	pa, e1 := cosineDistanceImpl.Preprocess(a)
	pb, e2 := cosineDistanceImpl.Preprocess(b)
	sa, e3 := cosineDistanceImpl.Preprocess(Scale(a, s))
	vAssert((e1 == nil) == (e3 == nil), "scale-keeps-zero-ness")
	if e1 != nil || e2 != nil {
		return
	}
	r1 := cosineDistanceImpl.Calculate(pa, pb)
	r2 := cosineDistanceImpl.Calculate(sa, pb)
	vAssert(vAbs32(r1-r2) <= 1e-5, "scale-invariant")
	vCover("ran")
}

// cosine distance of a preprocessed vector to itself is ~0 (grid domain)
func H_C18_grid_cos_self() {
	d := 1 + vChoose("dim", 2)
	a := vGridVec("a", d)
	p, err := cosineDistanceImpl.Preprocess(a)
	if err != nil {
		return
	}
	r := cosineDistanceImpl.Calculate(p, p)
	vAssert(vAnd(r >= 0, r <= 1e-5), "cosine-self-near-zero")
	vCover("ran")
}

func init() {
	vHarnesses["H_C18_wide"] = H_C18_wide
	vHarnesses["H_C18_wide_onehot"] = H_C18_wide_onehot
	vHarnesses["H_C18_wide_onehot_t"] = H_C18_wide_onehot_t
}

var vWideDims = []int{4, 5, 7, 8, 9, 15, 16, 17, 24, 32, 33, 64}

// the definitions at dimensions beyond 3 (loop unrolling / blocking boundaries): on the grid domain every
// partial sum of squares / products is exact in float32, so the result does not depend on the summation
// order and must equal the sequential reference bit for bit.
func H_C18_wide() {
	d := vWideDims[vChoose("dim", len(vWideDims))]
	a, b := vGridVec("a", d), vGridVec("b", d)
	a0 := vCopy(a)
	var ss, dd, dot float32
	for i := range a {
		ss += a[i] * a[i]
		df := a[i] - b[i]
		dd += df * df
		dot += a[i] * b[i]
	}
	n := float32(math.Sqrt(float64(ss)))
	vAssert(vSameF32(Norm(a), n), "norm-definition")
	vAssert(vSameF32(l2SquaredDistanceImpl.Calculate(a, b), dd), "l2sq-definition")
	vAssert(vSameF32(euclideanDistanceImpl.Calculate(a, b), float32(math.Sqrt(float64(dd)))), "l2-is-sqrt-of-l2sq")
	cl := dot
	if dot > 1 {
		cl = 1
	} else if dot < -1 {
		cl = -1
	}
	vAssert(vSameF32(cosineDistanceImpl.Calculate(a, b), 1-cl), "cosine-is-one-minus-clamped-dot")
	for k, dist := range []Distance{euclideanDistanceImpl, l2SquaredDistanceImpl, cosineDistanceImpl} {
		out := dist.CalculateBatch([][]float32{a, b}, b)
		vAssert(len(out) == 2, "batch-len")
		vAssert(vSameF32(out[0], dist.Calculate(a, b)), "batch-elementwise")
		vAssert(vSameF32(out[1], dist.Calculate(b, b)), "batch-elementwise")
		_ = k
	}
	p, perr := cosineDistanceImpl.Preprocess(a)
	vAssert(vSameVec(a, a0), "preprocess-leaves-argument")
	q := vCopy(a)
	ierr := cosineDistanceImpl.PreprocessInPlace(q)
	vAssert((perr == nil) == (ierr == nil), "preprocess-errors-agree")
	vAssert((perr == nil) == (n != 0), "only-zero-vector-rejected")
	if perr == nil {
		vAssert(vSameVec(p, q), "inplace-equals-preprocess")
		vAssert(vSameVec(Normalize(a), p), "normalize-equals-cosine-preprocess")
	}
	vCover("ran")
}

// one non-zero component at any position: Norm = |x|, l2 = |x-y|, dot = x*y exactly, and the unit vector
// has +-1 there — whatever the summation order, so no component may be skipped or counted twice.
func H_C18_wide_onehot()   { vWideOneHot([]int{8, 9, 16, 33}, 9) }
func H_C18_wide_onehot_t() { vWideOneHot(vWideDims, 17) }

func vWideOneHot(dims []int, allPosUpTo int) {
	d := dims[vChoose("dim", len(dims))]
	var pos int
	if d <= allPosUpTo {
		pos = vChoose("pos", d)
	} else {
		pos = []int{0, 1, 7, 8, d / 2, d - 9, d - 8, d - 2, d - 1}[vChoose("pos", 9)]
	}
	x, y := vGrid32("x"), vGrid32("y")
	vAssume(x != 0)
	a, b := make([]float32, d), make([]float32, d)
	a[pos], b[pos] = x, y
	vAssert(Norm(a) == vAbs32(x), "norm-of-one-hot")
	sq := l2SquaredDistanceImpl.Calculate(a, b)
	vAssert(sq == (x-y)*(x-y), "l2sq-of-one-hot")
	// (sqrt((x-y)^2) == |x-y| itself is beyond cvc5 within 60 s; the square root is taken of the value just checked)
	vAssert(vSameF32(euclideanDistanceImpl.Calculate(a, b), float32(math.Sqrt(float64(sq)))), "l2-of-one-hot")
	dot := x * y
	if dot > 1 {
		dot = 1
	} else if dot < -1 {
		dot = -1
	}
	vAssert(cosineDistanceImpl.Calculate(a, b) == 1-dot, "cosine-of-one-hot")
	p, err := cosineDistanceImpl.Preprocess(a)
	vAssert(err == nil && len(p) == d, "preprocess-ok")
	vAssert(vAbs32(vAbs32(p[pos])-1) <= 1e-6, "unit-component")
	vAssert((p[pos] > 0) == (x > 0), "unit-component-sign")
	for j := range p {
		if j != pos {
			vAssert(p[j] == 0, "other-components-zero")
		}
	}
	vAssert(vAbs32(Norm(Normalize(a))-1) <= 1e-6, "normalize-unit")
	vCover("ran")
}
