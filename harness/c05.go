//go:build verif

package comet

// C05 — hybrid search = metadata pre-filter, per-modality top-k, fusion, ranking.
// Oracle by composition: the harness asks the sub-indexes directly (public API);
// the sub-answers themselves are C01 / C03 / C04's obligations.

func init() {
	vHarnesses["H_C05_main"] = H_C05_main
	vHarnesses["H_C05_config"] = H_C05_config
	vHarnesses["H_C05_options"] = H_C05_options
}

type vHybridDoc struct {
	id   uint32
	vec  []float32
	text string
	meta map[string]interface{}
}

// options of the hybrid search that are handed through to the sub-searches; the zero value means "not set"
type vHybridOpts struct {
	groups       []*FilterGroup
	threshold    float32
	setThreshold bool
	agg          ScoreAggregationKind
	setAgg       bool
	cutoff       int
	setCutoff    bool
	nProbes      int
	efSearch     int
	fusionByKind bool // WithFusionKind(kind) instead of WithFusion(NewFusion(kind, cfg))
	fusionDefault bool // no fusion selected at all: the default (weighted sum, weights 1 and 1)
}

func vHybridCheck(h HybridSearchIndex, q []float32, texts []string, filters []Filter, k int, fkind FusionKind, cfg *FusionConfig) {
	vHybridCheckOpt(h, q, texts, filters, k, fkind, cfg, vHybridOpts{})
}

func vHybridCheckOpt(h HybridSearchIndex, q []float32, texts []string, filters []Filter, k int, fkind FusionKind, cfg *FusionConfig, o vHybridOpts) {
	hs := h.NewSearch().WithK(k)
	agg, cutoff := SumAggregation, -1
	if len(o.groups) > 0 {
		hs = hs.WithMetadataGroups(o.groups...)
	}
	if o.setThreshold {
		hs = hs.WithThreshold(o.threshold)
	}
	if o.setAgg {
		hs = hs.WithScoreAggregation(o.agg)
		agg = o.agg
	}
	if o.setCutoff {
		hs = hs.WithCutoff(o.cutoff)
		cutoff = o.cutoff
	}
	if o.nProbes != 0 {
		hs = hs.WithNProbes(o.nProbes)
	}
	if o.efSearch != 0 {
		hs = hs.WithEfSearch(o.efSearch)
	}
	if q != nil {
		hs = hs.WithVector(q)
	}
	if len(texts) > 0 {
		hs = hs.WithText(texts...)
	}
	if len(filters) > 0 {
		hs = hs.WithMetadata(filters...)
	}
	if o.fusionByKind || o.fusionDefault {
		// the documented default configuration (weights 1 and 1, K = 60), written out: the expectation must not be taken
		// from DefaultFusionConfig() itself
		cfg = &FusionConfig{VectorWeight: 1, TextWeight: 1, K: 60}
	}
	f, ferr := NewFusion(fkind, cfg)
	vAssert(ferr == nil, "fusion-constructor")
	if o.fusionByKind {
		hs = hs.WithFusionKind(fkind)
	} else if !o.fusionDefault {
		hs = hs.WithFusion(f)
	}
	res, err := hs.Execute()

	// ---- expectation by composition ----
	var cand []uint32
	if len(filters) > 0 || len(o.groups) > 0 {
		ms := h.MetadataIndex().NewSearch()
		if len(filters) > 0 {
			ms = ms.WithFilters(filters...)
		}
		if len(o.groups) > 0 {
			ms = ms.WithFilterGroups(o.groups...)
		}
		mr, merr := ms.Execute()
		vAssert((err != nil) == (merr != nil) || err != nil, "metadata-error-propagates")
		if merr != nil {
			return
		}
		for _, r := range mr {
			cand = append(cand, r.GetId())
		}
		if len(cand) == 0 {
			vAssert(err == nil && len(res) == 0, "empty-filter-empty-result")
			vCover("filter-matches-nothing")
			return
		}
	}
	var vres, tres map[uint32]float64
	if q != nil {
		np := 1
		if o.nProbes > 0 {
			np = o.nProbes
		}
		vs := h.VectorIndex().NewSearch().WithQuery(vCopy(q)).WithK(k).WithScoreAggregation(agg).WithCutoff(cutoff).WithNProbes(np).WithDocumentIDs(cand...)
		if o.efSearch > 0 {
			vs = vs.WithEfSearch(o.efSearch)
		}
		if o.setThreshold && o.threshold > 0 {
			vs = vs.WithThreshold(o.threshold) // a threshold that is not positive means "no threshold"
		}
		rs, verr := vs.Execute()
		if verr != nil {
			vAssert(err != nil, "vector-error-propagates")
			return
		}
		vres = map[uint32]float64{}
		for _, r := range rs {
			vres[r.GetId()] = float64(r.GetScore())
		}
	}
	if len(texts) > 0 {
		rs, terr := h.TextIndex().NewSearch().WithQuery(texts...).WithK(k).WithScoreAggregation(agg).WithCutoff(cutoff).WithDocumentIDs(cand...).Execute()
		if terr != nil {
			vAssert(err != nil, "text-error-propagates")
			return
		}
		tres = map[uint32]float64{}
		for _, r := range rs {
			tres[r.GetId()] = float64(r.GetScore())
		}
	}
	vAssert(err == nil, "search-ok")
	if err != nil {
		return
	}
	var exp map[uint32]float64
	switch {
	case len(vres) > 0 && len(tres) > 0:
		exp = f.Combine(vres, tres) // the definitional formulas of Combine are C19's obligation
		vCover("fused")
	case len(vres) > 0:
		exp = vres
		vCover("vector-only")
	case len(tres) > 0:
		exp = tres
		vCover("text-only")
	default:
		exp = map[uint32]float64{}
		if q == nil && len(texts) == 0 {
			for _, id := range cand {
				exp[id] = 1.0 // metadata-only query
			}
			vCover("metadata-only")
		} else {
			vCover("query-matches-nothing")
		}
	}
	for _, sc := range exp {
		vAssume(sc == sc) // NaN fused scores (Inf-Inf, 0*Inf) have no ranking; finite weights and scores are assumed
	}
	want := len(exp)
	if want > k {
		want = k
	}
	vAssert(len(res) == want, "result-count")
	vAssert(len(res) <= k, "at-most-k")
	for i, r := range res {
		sc, ok := exp[r.ID]
		vAssert(ok, "result-is-a-candidate")
		if ok {
			vAssert(vSameF64(r.Score, sc), "fused-score")
		}
		for j := 0; j < i; j++ {
			vAssert(res[j].ID != r.ID, "result-unique")
		}
		if i > 0 {
			vAssert(vOr(!(r.Score > res[i-1].Score), vOr(r.Score != r.Score, res[i-1].Score != res[i-1].Score)), "descending-order")
		}
	}
	for id, sc := range exp {
		ret := false
		for _, r := range res {
			if r.ID == id {
				ret = true
			}
		}
		if !ret {
			for _, r := range res {
				vAssert(vOr(!(sc > r.Score), vOr(sc != sc, r.Score != r.Score)), "top-k-by-fused-score")
			}
		}
	}
}

func H_C05_main() {
	flat, _ := NewFlatIndex(1, L2Squared)
	h := NewHybridSearchIndex(flat, NewBM25SearchIndex(), NewRoaringMetadataIndex())
	docs := []vHybridDoc{
		{5, vVec("v0", 1), "fox fox dog", map[string]interface{}{"c": "x", "n": vI64("n0")}},
		{3, vVec("v1", 1), "", map[string]interface{}{"c": "x", "n": vI64("n1")}},
		{9, nil, "the dog", map[string]interface{}{"c": "y"}},
	}
	for _, d := range docs {
		vAssert(h.AddWithID(d.id, d.vec, d.text, d.meta) == nil, "add-ok")
	}
	var q []float32
	if vChoose("with_vector", 2) == 1 {
		q = vVec("q", 1)
	}
	var texts []string
	switch vChoose("with_text", 3) {
	case 1:
		texts = []string{"dog"}
	case 2:
		texts = []string{"cat"} // matches nothing
	}
	var filters []Filter
	switch vChoose("filter", 5) {
	case 1:
		filters = []Filter{Eq("c", "x")}
	case 2:
		filters = []Filter{Eq("c", "zz")}
	case 3:
		filters = []Filter{Gte("n", vI64("c"))}
	case 4:
		filters = []Filter{Eq("c", "y")} // matches only document 9, which has no vector
	}
	if q == nil && len(texts) == 0 && len(filters) == 0 {
		_, err := h.NewSearch().WithK(3).Execute()
		_ = err // a query with no part: either an error or an empty result; not constrained by the property
		return
	}
	k := vInt("k")
	vAssume(k >= 1)
	fkind := vFusionKinds[vChoose("fusion", 4)]
	cfg := &FusionConfig{VectorWeight: vF64("wv"), TextWeight: vF64("wt"), K: vF64("K")}
	vAssume(vAnd(cfg.K > 0, vFinite64(cfg.K)))
	vAssume(vAnd(vFinite64(cfg.VectorWeight), vFinite64(cfg.TextWeight)))
	vHybridCheck(h, q, texts, filters, k, fkind, cfg)
}

// every combination of configured sub-indexes: querying a modality that is not configured is an error
func H_C05_config() {
	var vi VectorIndex
	var ti TextIndex
	var mi MetadataIndex
	c := vChoose("config", 8)
	if c&1 != 0 {
		vi, _ = NewFlatIndex(1, L2Squared)
	}
	if c&2 != 0 {
		ti = NewBM25SearchIndex()
	}
	if c&4 != 0 {
		mi = NewRoaringMetadataIndex()
	}
	h := NewHybridSearchIndex(vi, ti, mi)
	vAssert(h.AddWithID(5, []float32{1}, "fox", map[string]interface{}{"c": "x"}) == nil, "add-ok")
	vAssert(h.AddWithID(3, []float32{4}, "dog fox", map[string]interface{}{"c": "y"}) == nil, "add-ok")
	part := vChoose("part", 3)
	hs := h.NewSearch().WithK(5)
	var configured bool
	switch part {
	case 0:
		hs = hs.WithVector([]float32{vF32("q")})
		configured = vi != nil
	case 1:
		hs = hs.WithText("fox")
		configured = ti != nil
	case 2:
		hs = hs.WithMetadata(Eq("c", "x"))
		configured = mi != nil
	}
	res, err := hs.Execute()
	if !configured {
		vAssert(err != nil, "unconfigured-modality-is-error")
		vCover("unconfigured")
		return
	}
	vAssert(err == nil, "configured-modality-ok")
	switch part {
	case 0, 1:
		vAssert(len(res) == 2, "both-documents-found")
	case 2:
		vAssert(len(res) == 1 && res[0].ID == 5 && res[0].Score == 1, "metadata-only-score-1")
	}
	vCover("configured")
}

// the options a hybrid search hands through: filter groups (alone and next to a filter list), fusion by kind with
// the default configuration, a vector threshold, several text queries under each aggregation rule, an autocut
// cutoff — one option family at a time, same oracle by composition
func H_C05_options() {
	flat, _ := NewFlatIndex(1, L2Squared)
	h := NewHybridSearchIndex(flat, NewBM25SearchIndex(), NewRoaringMetadataIndex())
	docs := []vHybridDoc{
		{5, vVec("v0", 1), "fox fox dog", map[string]interface{}{"c": "x", "n": vI64("n0")}},
		{3, vVec("v1", 1), "dog cat", map[string]interface{}{"c": "x", "n": vI64("n1")}},
		{9, vVec("v2", 1), "the dog", map[string]interface{}{"c": "y"}},
	}
	for _, d := range docs {
		vAssert(h.AddWithID(d.id, d.vec, d.text, d.meta) == nil, "add-ok")
	}
	q := vVec("q", 1)
	texts := []string{"dog"}
	var filters []Filter
	k := vInt("k")
	vAssume(k >= 1)
	fkind := WeightedSumFusion
	cfg := &FusionConfig{VectorWeight: 0.25, TextWeight: 2, K: 60}
	var o vHybridOpts
	fam := vChoose("family", 6)
	switch fam {
	case 0: // filter groups alone: (c = x and n >= c) or (c = y)
		o.groups = []*FilterGroup{{Filters: []Filter{Eq("c", "x"), Gte("n", vI64("c"))}, Logic: AND}, {Filters: []Filter{Eq("c", []string{"y", "zz"}[vChoose("second_group_value", 2)])}, Logic: AND}}
		if vChoose("parts", 2) == 1 {
			q = nil // text + groups only
		}
		vTag("groups")
	case 1: // groups next to a filter list: whatever the metadata index answers for both is the candidate set
		o.groups = []*FilterGroup{{Filters: []Filter{Lt("n", vI64("c"))}, Logic: AND}}
		filters = []Filter{Eq("c", "x")}
		texts = nil
		vTag("groups+filters")
	case 2: // fusion selected by kind, or not selected at all: the default configuration — also after another caller took a
		// default configuration object and changed it for its own use
		if vChoose("another_caller_customised_its_default_config", 2) == 1 {
			mine := DefaultFusionConfig()
			mine.VectorWeight, mine.TextWeight, mine.K = 0.25, 4, 1
			_, _ = NewFusion(WeightedSumFusion, mine)
		}
		if vChoose("selected", 2) == 1 {
			fkind = vFusionKinds[vChoose("fusion", 4)]
			o.fusionByKind = true
		} else {
			fkind = WeightedSumFusion
			o.fusionDefault = true
		}
		vTag("fusion-by-kind")
	case 3: // vector threshold (any float32 that is not NaN; <= 0 means none)
		o.setThreshold = true
		o.threshold = vF32("th")
		vAssume(o.threshold == o.threshold)
		if vChoose("parts", 2) == 1 {
			texts = nil
		}
		vTag("threshold")
	case 4: // two text queries under each aggregation rule
		texts = []string{"dog", "cat fox"}
		o.setAgg = true
		o.agg = []ScoreAggregationKind{SumAggregation, MaxAggregation, MeanAggregation}[vChoose("agg", 3)]
		if vChoose("parts", 2) == 1 {
			q = nil
		}
		vTag("aggregation")
	case 5: // autocut cutoff handed to both sub-searches
		o.setCutoff = true
		o.cutoff = []int{-1, 0, 1, 2}[vChoose("cutoff", 4)]
		if vChoose("parts", 2) == 1 {
			texts = nil
		} else {
			q = nil
		}
		vTag("cutoff")
	}
	vHybridCheckOpt(h, q, texts, filters, k, fkind, cfg, o)
	vCover("ran")
}

func init() { vHarnesses["H_C05_passthrough"] = H_C05_passthrough }

// an approximate vector index under the hybrid: WithNProbes reaches the IVF search and WithEfSearch the HNSW search
// (the hybrid's own defaults otherwise), so the vector candidates are what that index returns for the same setting
// inside the filtered set.  Four documents, concrete vectors next to two centroids, three queries, k any int >= 1.
func H_C05_passthrough() {
	var vi VectorIndex
	var o vHybridOpts
	if vChoose("vector_index", 2) == 0 {
		ivf, _ := NewIVFIndex(1, 2, L2Squared)
		ivf.centroids = [][]float32{{0}, {8}}
		ivf.trained = true
		vi = ivf
		o.nProbes = []int{0, 1, 2, 5, -1}[vChoose("nprobes", 5)]
		vTag("ivf")
	} else {
		hn, _ := NewHNSWIndex(1, L2Squared, 2, 8, 8)
		vi = hn
		switch vChoose("ef", 3) {
		case 1:
			o.efSearch = 1
		case 2:
			hn.SetEfSearch(2)
			o.efSearch = 6
		}
		vRandBudget(0)
		vTag("hnsw")
	}
	h := NewHybridSearchIndex(vi, NewBM25SearchIndex(), NewRoaringMetadataIndex())
	for i, x := range []float32{0.5, 7.5, -1, 9.25} {
		vAssert(h.AddWithID(uint32(20-3*i), []float32{x}, []string{"fox dog", "dog", "fox", "cat"}[i], map[string]interface{}{"c": []string{"x", "x", "y", "x"}[i]}) == nil, "add-ok")
	}
	q := vCopy([][]float32{{0.25}, {6}, {-4}}[vChoose("query", 3)])
	var filters []Filter
	if vChoose("filter", 2) == 1 {
		filters = []Filter{Eq("c", "x")}
	}
	var texts []string
	if vChoose("with_text", 2) == 1 {
		texts = []string{"dog"}
	}
	k := vInt("k")
	vAssume(k >= 1)
	vHybridCheckOpt(h, q, texts, filters, k, WeightedSumFusion, &FusionConfig{VectorWeight: 0.5, TextWeight: 2, K: 60}, o)
	vCover("ran")
}
